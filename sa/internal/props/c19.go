package props

import (
	"fmt"
	"go/constant"
	"go/token"
	"go/types"
	"strings"

	"golang.org/x/tools/go/ssa"

	"verifsa/internal/core"
	"verifsa/internal/paths"
)

func init() {
	register(core.PropertyDef{
		ID:    "C19",
		Title: "SMPP validity-period strings denote exactly the requested time",
		Explanation: "Structural rules over ToValidatePeriod and its two formatters, nothing is executed. FLOW: all paths of ToValidatePeriod are enumerated; a path " +
			"on which ParseDuration failed returns a non-nil error; the only other refusals are conditions equivalent to d < 0 (now.Add(d).Before(now), " +
			"now.After(now.Add(d)), d < 0) or upper bounds on d; every accepting path carries the negation of the sign test; the relative formatter receives the " +
			"parsed duration itself and the absolute formatter now.Add(d) of the same now and d. RADIX: every argument of the relative Sprintf is evaluated to " +
			"the form trunc(d / unit) mod radix (Duration.Seconds/Minutes/Hours, division by constants, float->int truncation); units must be 1 s, 60 s, 3600 s, " +
			"86400 s in the order seconds..days and each radix times its unit must equal the next unit (mixed-radix consistency, so the fields denote exactly " +
			"floor(d) seconds). RANGE: the most significant field must not be reduced modulo anything and must be bounded by a refusal (<= 99 days), otherwise " +
			"longer durations are silently shortened. EMPTY: the empty string is returned only on the path where all four fields are zero, and that path " +
			"never reaches Sprintf. FORMAT: the relative format constant is 0000 + four %02d + 000R (16 characters given fields < 100); the absolute form is " +
			"target.UTC().Format(\"060102150405\") + \"000+\". Not decided: exactness of the float64 quotients (Duration.Hours() etc. are exact enough below " +
			"2^24 s by a manual argument, not by this check); time.Format / time.Add themselves.",
		Run: runC19,
	})
}

const nsSecond = int64(1000000000)

// quot describes v as d/unit for the duration parameter d.
type quot struct {
	unit    int64 // nanoseconds
	integer bool  // truncated to an integer (false: exact real quotient as float64)
}

func stripIface19(v ssa.Value) ssa.Value {
	for {
		switch x := v.(type) {
		case *ssa.ChangeType:
			v = x.X
		case *ssa.MakeInterface:
			v = x.X
		default:
			return v
		}
	}
}

func isFloat(t types.Type) bool {
	b, ok := t.Underlying().(*types.Basic)
	return ok && b.Info()&types.IsFloat != 0
}

func isInteger(t types.Type) bool {
	b, ok := t.Underlying().(*types.Basic)
	return ok && b.Info()&types.IsInteger != 0
}

func constNumber(v ssa.Value) (int64, bool) {
	k, ok := v.(*ssa.Const)
	if !ok || k.Value == nil {
		return 0, false
	}
	switch k.Value.Kind() {
	case constant.Int:
		return constant.Int64Val(k.Value)
	case constant.Float:
		f, _ := constant.Float64Val(k.Value)
		if f == float64(int64(f)) {
			return int64(f), true
		}
	}
	return 0, false
}

func timeMethod(v ssa.Value, recvType string) (name string, call *ssa.Call) {
	call, ok := v.(*ssa.Call)
	if !ok || call.Call.StaticCallee() == nil {
		return "", nil
	}
	cal := call.Call.StaticCallee()
	if cal.Signature.Recv() == nil || cal.Signature.Recv().Type().String() != recvType {
		return "", nil
	}
	return cal.Name(), call
}

func quotOf(v ssa.Value, d ssa.Value, depth int) (quot, string) {
	if depth > 10 {
		return quot{}, "too deep"
	}
	v = stripIface19(v)
	if v == d {
		return quot{1, true}, ""
	}
	switch x := v.(type) {
	case *ssa.Convert:
		q, why := quotOf(x.X, d, depth+1)
		if why != "" {
			return q, why
		}
		switch {
		case isFloat(x.X.Type()) && isInteger(x.Type()):
			return quot{q.unit, true}, "" // truncation toward zero; d >= 0 on accepting paths, so this is floor
		case isInteger(x.X.Type()) && isInteger(x.Type()):
			return q, ""
		case isInteger(x.X.Type()) && isFloat(x.Type()):
			return q, "" // integer value kept (exact below 2^53)
		}
		return q, "unsupported conversion " + x.X.Type().String() + " -> " + x.Type().String()
	case *ssa.Call:
		name, call := timeMethod(x, "time.Duration")
		if call == nil {
			return quot{}, "not a time.Duration method: " + role(plain, x)
		}
		q, why := quotOf(call.Call.Args[0], d, depth+1)
		if why != "" {
			return q, why
		}
		if q.unit != 1 {
			return q, "method applied to something other than the duration itself"
		}
		switch name {
		case "Seconds":
			return quot{nsSecond, false}, ""
		case "Minutes":
			return quot{60 * nsSecond, false}, ""
		case "Hours":
			return quot{3600 * nsSecond, false}, ""
		case "Milliseconds":
			return quot{nsSecond / 1000, true}, ""
		case "Nanoseconds":
			return quot{1, true}, ""
		case "Truncate":
			// d.Truncate(m) = d - d%m: keeps floor(d/m)*m; quotients by multiples of m are unchanged
			return quot{}, "Truncate not modelled"
		}
		return quot{}, "VIOL:Duration." + name + " changes the value (the fields must denote the duration truncated to whole seconds)"
	case *ssa.BinOp:
		if x.Op == token.QUO {
			k, ok := constNumber(x.Y)
			if !ok || k <= 0 {
				return quot{}, "division by a non-constant"
			}
			q, why := quotOf(x.X, d, depth+1)
			if why != "" {
				return q, why
			}
			if q.unit > (1<<62)/k {
				return q, "unit overflow"
			}
			// integer: floor(floor(d/u)/k) = floor(d/(u*k)); float: exact real quotient
			return quot{q.unit * k, q.integer}, ""
		}
	}
	return quot{}, "not of the form d/unit: " + role(plain, v)
}

type field19 struct {
	q     quot
	radix int64 // 0: none
	v     ssa.Value
	why   string
}

func fieldOf19(v ssa.Value, d ssa.Value) field19 {
	v = stripIface19(v)
	f := field19{v: v}
	if b, ok := v.(*ssa.BinOp); ok && b.Op == token.REM {
		k, isK := constNumber(b.Y)
		if !isK || k <= 0 {
			f.why = "modulus is not a positive constant"
			return f
		}
		f.radix = k
		v = b.X
	}
	f.q, f.why = quotOf(v, d, 0)
	if f.why == "" && !f.q.integer {
		f.why = "field is not truncated to an integer"
	}
	return f
}

func runC19(c *core.Ctx) {
	c.MinInstances("C19-FLOW", 2)
	c.MinInstances("C19-RADIX", 4)
	c.MinInstances("C19-FORMAT", 2)
	c.MinInstances("C19-EMPTY", 1)
	c.MinInstances("C19-RANGE", 1)
	c.Trust("time.ParseDuration, time.Time.Add/Before/After/UTC/Format, fmt %02d", "Duration.Seconds/Minutes/Hours are d/unit as float64")
	c.NotDecided("float64 exactness of Duration.Hours()/Minutes()/Seconds() near unit boundaries for very long durations", "time arithmetic inside package time")
	top := c.Prog.SSAFunc(c.Prog.LookupFunc("smpp", "ToValidatePeriod"))
	if top == nil {
		c.Broken("C19-FLOW", "smpp.ToValidatePeriod", "function not found")
		return
	}
	pos := c.Prog.Pos(top.Pos())
	// the parsed duration
	var parse *ssa.Call
	for _, call := range callsTo(top, "time", "ParseDuration") {
		parse = call
	}
	if parse == nil || len(callsTo(top, "time", "ParseDuration")) != 1 {
		c.Unknown("C19-FLOW", "smpp.ToValidatePeriod#parse", pos, "expected exactly one time.ParseDuration call")
		return
	}
	if strip19(parse.Call.Args[0]) != ssa.Value(top.Params[1]) {
		c.Fail("C19-FLOW", "smpp.ToValidatePeriod#parse", pos, "the string parsed is not the duration argument")
	} else {
		c.OK("C19-FLOW", "smpp.ToValidatePeriod#parse", pos, "d = ParseDuration(v)")
	}
	now := ssa.Value(top.Params[0])
	isD := func(v ssa.Value) bool {
		ex, ok := strip19(v).(*ssa.Extract)
		return ok && ex.Tuple == ssa.Value(parse) && ex.Index == 0
	}
	isErr := func(v ssa.Value) bool {
		ex, ok := strip19(v).(*ssa.Extract)
		return ok && ex.Tuple == ssa.Value(parse) && ex.Index == 1
	}
	isTarget := func(v ssa.Value) bool { // now.Add(d)
		n, call := timeMethod(strip19(v), "time.Time")
		return call != nil && n == "Add" && strip19(call.Call.Args[0]) == now && isD(call.Call.Args[1])
	}
	// classify a branch: "err" (parse failed), "neg" (d<0), "pos" (d>0), "le0", "ge0", "upper" (d above a constant), "rel", "?"
	classify := func(e paths.Event) string {
		cond := e.Cond
		taken := e.Taken
		neg := func(s string) string {
			return map[string]string{"err": "noerr", "noerr": "err", "neg": "ge0", "ge0": "neg", "pos": "le0", "le0": "pos", "upper": "within", "within": "upper", "rel": "abs", "abs": "rel"}[s]
		}
		out := "?"
		if u, ok := cond.(*ssa.UnOp); ok && u.Op == token.NOT {
			cond = u.X
			taken = !taken
		}
		switch x := cond.(type) {
		case *ssa.Parameter:
			if x == top.Params[2] {
				out = "rel"
			}
		case *ssa.BinOp:
			switch {
			case isErr(x.X) && paths.IsNilConst(x.Y), isErr(x.Y) && paths.IsNilConst(x.X):
				if x.Op == token.NEQ {
					out = "err"
				} else if x.Op == token.EQL {
					out = "noerr"
				}
			case isD(x.X) || isD(x.Y):
				op := x.Op
				other := x.Y
				if isD(x.Y) {
					other = x.X
					op = map[token.Token]token.Token{token.LSS: token.GTR, token.GTR: token.LSS, token.LEQ: token.GEQ, token.GEQ: token.LEQ}[op]
				}
				k, ok := constNumber(other)
				if !ok {
					break
				}
				switch {
				case k == 0 && op == token.LSS:
					out = "neg"
				case k == 0 && op == token.GEQ:
					out = "ge0"
				case k == 0 && op == token.GTR:
					out = "pos"
				case k == 0 && op == token.LEQ:
					out = "le0"
				case k > 0 && (op == token.GTR || op == token.GEQ):
					out = "upper"
				case k > 0 && (op == token.LSS || op == token.LEQ):
					out = "within"
				}
			}
		case *ssa.Call:
			n, call := timeMethod(x, "time.Time")
			if call == nil {
				break
			}
			r, a := call.Call.Args[0], call.Call.Args[1]
			switch {
			case n == "Before" && isTarget(r) && strip19(a) == now, n == "After" && strip19(r) == now && isTarget(a):
				out = "neg"
			case n == "After" && isTarget(r) && strip19(a) == now, n == "Before" && strip19(r) == now && isTarget(a):
				out = "pos"
			}
		}
		if out != "?" && !taken {
			out = neg(out)
		}
		return out
	}
	ps, err := paths.Enumerate(top, paths.Config{})
	if err != nil {
		c.Unknown("C19-FLOW", "smpp.ToValidatePeriod#paths", pos, "path enumeration failed: "+err.Error())
		return
	}
	rel := c.Prog.SSAFunc(c.Prog.LookupFunc("smpp", "timeToSMPPTimeFormatRelative"))
	abs := c.Prog.SSAFunc(c.Prog.LookupFunc("smpp", "timeToSMPPTimeFormatAbsolute"))
	var flowProblems []string
	var upperBound int64 // smallest refusal constant on d, 0 = none
	nAccept := map[string]int{}
	for _, p := range ps {
		if p.Aborted != "" {
			flowProblems = append(flowProblems, "path aborted: "+p.Aborted)
			continue
		}
		set := map[string]bool{}
		var last paths.Event
		for _, e := range p.Events {
			last = e
			if e.Kind == paths.EvBranch {
				k := classify(e)
				set[k] = true
				if k == "upper" {
					if b, ok := e.Cond.(*ssa.BinOp); ok {
						for _, o := range []ssa.Value{b.X, b.Y} {
							if kk, isK := constNumber(o); isK && kk > 0 && (upperBound == 0 || kk < upperBound) {
								upperBound = kk
							}
						}
					}
				}
			}
		}
		_ = last
		if set["?"] {
			flowProblems = append(flowProblems, "a branch condition is not understood (not a parse-error, sign, upper-bound or isRelative test)")
			continue
		}
		if len(p.Results) != 2 {
			flowProblems = append(flowProblems, "unexpected result arity")
			continue
		}
		r0, r1 := p.Results[0], p.Results[1]
		refused := !paths.IsNilConst(r1)
		switch {
		case set["err"]:
			if !refused {
				flowProblems = append(flowProblems, "a path on which ParseDuration failed returns a nil error (unparsable input accepted)")
			}
		case refused:
			switch {
			case set["neg"] || set["upper"]:
			case set["le0"]:
				flowProblems = append(flowProblems, "a zero duration is refused (the guard is d <= 0, the property requires the empty string for zero)")
			default:
				flowProblems = append(flowProblems, "a duration is refused on a path with no sign or range test")
			}
		default: // accepted
			if !set["noerr"] {
				flowProblems = append(flowProblems, "an accepting path does not test the parse error")
			}
			if !set["ge0"] && !set["pos"] {
				flowProblems = append(flowProblems, "an accepting path does not exclude negative durations")
			}
			call, isC := strip19(r0).(*ssa.Call)
			if k, isK := r0.(*ssa.Const); isK && set["le0"] && !set["neg"] && k.Value != nil && constant.StringVal(k.Value) == "" {
				nAccept["zero"]++ // explicit: d == 0 -> ""
				continue
			}
			if !isC || call.Call.StaticCallee() == nil {
				flowProblems = append(flowProblems, "an accepting path does not return a formatter result: "+role(plain, r0))
				continue
			}
			switch call.Call.StaticCallee() {
			case rel:
				if !set["rel"] {
					flowProblems = append(flowProblems, "the relative formatter is used although isRelative is false")
				}
				if !isD(call.Call.Args[0]) {
					flowProblems = append(flowProblems, "the relative formatter does not receive the parsed duration itself but "+roleRecv(call.Call.Args[0]))
				}
				nAccept["rel"]++
			case abs:
				if !set["abs"] {
					flowProblems = append(flowProblems, "the absolute formatter is used although isRelative is true")
				}
				if !isTarget(call.Call.Args[1]) {
					flowProblems = append(flowProblems, "the absolute formatter does not receive now.Add(d) but "+roleRecv(call.Call.Args[1]))
				}
				nAccept["abs"]++
			default:
				flowProblems = append(flowProblems, "an accepting path returns the result of "+call.Call.StaticCallee().Name())
			}
		}
	}
	if nAccept["rel"] == 0 || nAccept["abs"] == 0 {
		flowProblems = append(flowProblems, "no accepting path for the relative or the absolute form")
	}
	c.Decide(len(flowProblems) == 0, "C19-FLOW", "smpp.ToValidatePeriod#paths", pos, fmt.Sprintf("%d paths: parse error and negative durations refused, zero accepted, formatters receive d resp. now.Add(d)", len(ps)), strings.Join(dedup(flowProblems), "; "))
	c.Count("toplevel_paths", len(ps))
	// --- relative formatter
	if rel == nil {
		c.Broken("C19-RADIX", "smpp.timeToSMPPTimeFormatRelative", "function not found")
		return
	}
	rpos := c.Prog.Pos(rel.Pos())
	d := ssa.Value(rel.Params[0])
	sprs := callsTo(rel, "fmt", "Sprintf")
	if len(sprs) != 1 {
		c.Unknown("C19-RADIX", "smpp.timeToSMPPTimeFormatRelative#sprintf", rpos, "expected exactly one Sprintf")
		return
	}
	spr := sprs[0]
	var args []ssa.Value
	if sl, ok := spr.Call.Args[1].(*ssa.Slice); ok {
		if al, ok := sl.X.(*ssa.Alloc); ok {
			args = arrayStores(al)
		}
	}
	// FORMAT
	{
		f, ok := spr.Call.Args[0].(*ssa.Const)
		why := ""
		if !ok || f.Value == nil || f.Value.Kind() != constant.String {
			why = "format is not a constant"
		} else {
			s := constant.StringVal(f.Value)
			lits, verbs := splitFormat(s)
			switch {
			case len(verbs) != 4 || len(args) != 4:
				why = fmt.Sprintf("%d verbs / %d arguments, expected 4/4", len(verbs), len(args))
			case lits[0] != "0000":
				why = "the year/month positions are " + lits[0] + ", expected 0000"
			case lits[4] != "000R":
				why = "the suffix is " + lits[4] + ", expected 000R (t=0, nn=00, p=R)"
			case lits[1] != "" || lits[2] != "" || lits[3] != "":
				why = "literal text between the fields"
			}
			for _, v := range verbs {
				if v != "%02d" && why == "" {
					why = "verb " + v + " is not %02d"
				}
			}
		}
		c.Decide(why == "", "C19-FORMAT", "smpp.timeToSMPPTimeFormatRelative#format", rpos, "0000 %02d%02d%02d%02d 000R = 16 characters for fields < 100", why)
	}
	// RADIX
	names := []string{"days", "hours", "minutes", "seconds"}
	units := []int64{86400 * nsSecond, 3600 * nsSecond, 60 * nsSecond, nsSecond}
	var fields []field19
	for i := 0; i < 4; i++ {
		key := "smpp.timeToSMPPTimeFormatRelative#" + names[i]
		if i >= len(args) || args[i] == nil {
			c.Fail("C19-RADIX", key, rpos, "argument missing")
			fields = append(fields, field19{why: "missing"})
			continue
		}
		f := fieldOf19(args[i], d)
		fields = append(fields, f)
		switch {
		case strings.HasPrefix(f.why, "VIOL:"):
			c.Fail("C19-RADIX", key, rpos, "the "+names[i]+" field is not trunc(d/unit) mod radix: "+strings.TrimPrefix(f.why, "VIOL:"))
		case f.why != "":
			c.Unknown("C19-RADIX", key, rpos, "the "+names[i]+" field is not of the form trunc(d/unit) mod radix: "+f.why)
		case f.q.unit != units[i]:
			c.Fail("C19-RADIX", key, rpos, fmt.Sprintf("the %s field is d/%d ns, expected d/%d ns", names[i], f.q.unit, units[i]))
		case i > 0 && f.radix*f.q.unit != units[i-1]:
			c.Fail("C19-RADIX", key, rpos, fmt.Sprintf("the %s field is reduced modulo %d; %d of them must make one unit of the next field", names[i], f.radix, units[i-1]/units[i]))
		default:
			c.OK("C19-RADIX", key, rpos, fmt.Sprintf("trunc(d / %d s) mod %d", f.q.unit/nsSecond, f.radix))
		}
	}
	// RANGE
	{
		key := "smpp.timeToSMPPTimeFormatRelative#days"
		f := fields[0]
		switch {
		case f.why != "":
			c.Unknown("C19-RANGE", key, rpos, "days field not understood")
		case f.radix != 0:
			c.Fail("C19-RANGE", fmt.Sprintf("%s%%%d", key, f.radix), rpos, fmt.Sprintf("the most significant field is reduced modulo %d and no refusal bounds the duration: %d days is rendered as the empty string / a shorter period instead of being refused", f.radix, f.radix))
		case upperBound == 0 || upperBound > 100*86400*nsSecond:
			c.Fail("C19-RANGE", key+"#unbounded", rpos, "the days field is not bounded by a refusal: 100 days or more does not fit the two-digit field")
		default:
			c.OK("C19-RANGE", key, rpos, fmt.Sprintf("durations of %d ns or more are refused; days < 100", upperBound))
		}
	}
	// EMPTY
	{
		rps, err := paths.Enumerate(rel, paths.Config{})
		var problems []string
		if err != nil {
			problems = append(problems, "path enumeration failed: "+err.Error())
		}
		nEmpty, nFmt := 0, 0
		for _, p := range rps {
			zero := map[int]bool{}
			nonzero := false
			other := false
			for _, e := range p.Events {
				if e.Kind != paths.EvBranch {
					continue
				}
				b, ok := e.Cond.(*ssa.BinOp)
				hit := false
				if ok && (b.Op == token.EQL || b.Op == token.NEQ) {
					if k, isK := constNumber(b.Y); isK && k == 0 {
						for i, f := range fields {
							if f.v != nil && stripIface19(b.X) == f.v {
								hit = true
								if (b.Op == token.EQL) == e.Taken {
									zero[i] = true
								} else {
									nonzero = true
								}
							}
						}
					}
				}
				if !hit {
					other = true
				}
			}
			if len(p.Results) != 1 {
				continue
			}
			if k, isK := p.Results[0].(*ssa.Const); isK && k.Value != nil && k.Value.Kind() == constant.String {
				if constant.StringVal(k.Value) != "" {
					problems = append(problems, "a constant other than the empty string is returned")
					continue
				}
				nEmpty++
				if len(zero) != 4 || nonzero {
					problems = append(problems, "the empty string is returned on a path where not all four fields were tested zero")
				}
			} else if strip19(p.Results[0]) == ssa.Value(spr) {
				nFmt++
				if !nonzero && len(zero) == 4 {
					problems = append(problems, "the all-zero case reaches Sprintf")
				}
				if !nonzero {
					problems = append(problems, "a formatted result is returned without any field tested non-zero (zero duration must give the empty string)")
				}
			} else {
				problems = append(problems, "a path returns something other than \"\" or the Sprintf result")
			}
			_ = other
		}
		if nEmpty == 0 {
			problems = append(problems, "no path returns the empty string (zero duration)")
		}
		c.Decide(len(problems) == 0, "C19-EMPTY", "smpp.timeToSMPPTimeFormatRelative#empty", rpos, fmt.Sprintf("%d paths: \"\" iff all four fields are zero", len(rps)), strings.Join(dedup(problems), "; "))
	}
	// --- absolute formatter
	if abs == nil {
		c.Broken("C19-FORMAT", "smpp.timeToSMPPTimeFormatAbsolute", "function not found")
		return
	}
	apos := c.Prog.Pos(abs.Pos())
	why := ""
	n := 0
	for _, b := range abs.Blocks {
		ret, ok := b.Instrs[len(b.Instrs)-1].(*ssa.Return)
		if !ok {
			continue
		}
		n++
		seq, ok := concatSeq(ret.Results[0], 0)
		if !ok || len(seq) != 5 {
			why = "result is `" + atomsString(seq) + "`, expected Format(...) ++ '0' ++ '0' ++ '0' ++ '+'"
			continue
		}
		if seq[1].S != "'0'" || seq[2].S != "'0'" || seq[3].S != "'0'" || seq[4].S != "'+'" {
			why = "suffix is not 000+ (tenths 0, offset 00, ahead of UTC): " + atomsString(seq[1:])
		}
		fn, fcall := timeMethod(strip19(seq[0].V), "time.Time")
		if fcall == nil || fn != "Format" {
			why = "the first part is not time.Format"
			continue
		}
		if l, isK := fcall.Call.Args[1].(*ssa.Const); !isK || l.Value == nil || constant.StringVal(l.Value) != "060102150405" {
			why = "layout is not 060102150405 (YYMMDDhhmmss)"
		}
		un, ucall := timeMethod(strip19(fcall.Call.Args[0]), "time.Time")
		if ucall == nil || un != "UTC" || strip19(ucall.Call.Args[0]) != ssa.Value(abs.Params[1]) {
			why = "the instant formatted is not target.UTC() (offset 00+ requires UTC)"
		}
	}
	if n != 1 && why == "" {
		why = "expected a single return"
	}
	c.Decide(why == "", "C19-FORMAT", "smpp.timeToSMPPTimeFormatAbsolute#format", apos, "target.UTC().Format(\"060102150405\") + \"000+\" = 16 characters", why)
}

func strip19(v ssa.Value) ssa.Value {
	for {
		switch x := v.(type) {
		case *ssa.ChangeType:
			v = x.X
		case *ssa.Convert:
			if types.Identical(x.X.Type().Underlying(), x.Type().Underlying()) {
				v = x.X
			} else {
				return v
			}
		default:
			return v
		}
	}
}

// roleRecv: role with the receiver of static method calls spelled out.
func roleRecv(v ssa.Value) string {
	if call, ok := v.(*ssa.Call); ok {
		if cal := call.Call.StaticCallee(); cal != nil && cal.Signature.Recv() != nil && len(call.Call.Args) > 0 {
			var as []string
			for _, a := range call.Call.Args[1:] {
				as = append(as, roleRecv(a))
			}
			return roleRecv(call.Call.Args[0]) + "." + cal.Name() + "(" + strings.Join(as, ",") + ")"
		}
	}
	return role(plain, v)
}

// splitFormat splits a printf format into literal segments and verbs: len(lits) == len(verbs)+1.
func splitFormat(s string) (lits []string, verbs []string) {
	cur := ""
	for i := 0; i < len(s); i++ {
		if s[i] != '%' {
			cur += string(s[i])
			continue
		}
		if i+1 < len(s) && s[i+1] == '%' {
			cur += "%"
			i++
			continue
		}
		j := i + 1
		for j < len(s) && !((s[j] >= 'a' && s[j] <= 'z') || (s[j] >= 'A' && s[j] <= 'Z')) {
			j++
		}
		if j < len(s) {
			j++
		}
		lits = append(lits, cur)
		cur = ""
		verbs = append(verbs, s[i:j])
		i = j - 1
	}
	lits = append(lits, cur)
	return
}

func dedup(in []string) []string {
	seen := map[string]bool{}
	var out []string
	for _, s := range in {
		if !seen[s] {
			seen[s] = true
			out = append(out, s)
		}
	}
	return out
}
