package props

import (
	"fmt"
	"go/token"
	"go/types"
	"sort"

	"golang.org/x/tools/go/ssa"

	"verifsa/internal/core"
	"verifsa/internal/paths"
	"verifsa/internal/prover"
)

// Shared structural extraction for the two long-SMS splitters (used by C06, C07, C14).

type genericSplit struct {
	fn         *ssa.Function
	ok         bool
	problems   []string
	idx        *ssa.Phi
	msgCount   ssa.Value
	ceilCall   *ssa.Call
	ceilInline bool
	slice      *ssa.Slice
	header     []ssa.Value
	headerPos  token.Pos
}

type packedSplit struct {
	fn        *ssa.Function
	helper    *ssa.Function
	ok        bool
	problems  []string
	idx       *ssa.Phi
	begin     *ssa.Phi
	msgCount  *ssa.Phi
	endCall   *ssa.Call
	countCall *ssa.Call
	slice     *ssa.Slice
	header    []ssa.Value
	septets   ssa.Value
	twin      bool
	// the recorded-boundaries form: the first loop appends every cursor value to a list, the second ranges over it
	listForm bool
	list     *ssa.Phi  // the list (header phi of the recording loop)
	idxV     ssa.Value // the part index counting from 0 (the counter phi, or the range index of the list form)
}

// countIs: v is the number of parts (the counting loop's counter, or len(list) in the recorded form).
func (g *packedSplit) countIs(v ssa.Value) bool {
	if v == nil {
		return false
	}
	if g.listForm {
		call, ok := v.(*ssa.Call)
		if !ok || len(call.Call.Args) != 1 || call.Call.Args[0] != ssa.Value(g.list) {
			return false
		}
		bi, ok := call.Call.Value.(*ssa.Builtin)
		return ok && bi.Name() == "len"
	}
	return g.msgCount != nil && v == ssa.Value(g.msgCount)
}

// appendChain follows b = append(b, x) from a zero-length make and returns the first n single values appended.
func appendChain(start ssa.Value, n int) []ssa.Value {
	var out []ssa.Value
	cur := start
	for len(out) < n {
		var next *ssa.Call
		if cur.Referrers() == nil {
			break
		}
		for _, r := range *cur.Referrers() {
			call, ok := r.(*ssa.Call)
			if !ok {
				continue
			}
			if b, ok := call.Call.Value.(*ssa.Builtin); ok && b.Name() == "append" && call.Call.Args[0] == cur {
				if next != nil {
					return out // ambiguous chain
				}
				next = call
			}
		}
		if next == nil {
			break
		}
		sl, ok := next.Call.Args[1].(*ssa.Slice)
		if !ok {
			break
		}
		al, ok := sl.X.(*ssa.Alloc)
		if !ok {
			break
		}
		vals := arrayStores(al)
		if len(vals) == 0 {
			break
		}
		// one append may add several octets: append(buf, a, b, c)
		for _, v := range vals {
			if v == nil {
				return out
			}
			out = append(out, v)
		}
		cur = next
	}
	if len(out) > n {
		out = out[:n]
	}
	return out
}

// indexedHeader: part := make([]byte, k, cap); part[0] = a; ... part[k-1] = z - the header stored by index into a buffer
// that starts with exactly k octets (k a constant). Every one of the k elements is stored exactly once, with a constant
// index, in the block of the make (so before anything is appended); the values in index order, nil if not of this form.
func indexedHeader(ms *ssa.MakeSlice) []ssa.Value {
	k, ok := constInt(ms.Len)
	if !ok || k <= 0 || k > 16 || ms.Referrers() == nil {
		return nil
	}
	vals := make([]ssa.Value, k)
	for _, r := range *ms.Referrers() {
		ia, isIA := r.(*ssa.IndexAddr)
		if !isIA || ia.X != ssa.Value(ms) || ia.Referrers() == nil {
			continue
		}
		for _, rr := range *ia.Referrers() {
			st, isSt := rr.(*ssa.Store)
			if !isSt || st.Addr != ssa.Value(ia) {
				continue
			}
			i, isK := constInt(ia.Index)
			if !isK || i < 0 || i >= k || vals[i] != nil || st.Block() != ms.Block() {
				return nil
			}
			vals[i] = st.Val
		}
	}
	for _, v := range vals {
		if v == nil {
			return nil
		}
	}
	return vals
}

// headerOctetsBefore counts the single octets appended to a fresh buffer before call (an append of a payload): the
// chain append(append(make(0,..), a, b), c ...) is walked backwards and the variadic element counts are summed.
func headerOctetsBefore(part *ssa.Call) int {
	n := 0
	cur := part.Call.Args[0]
	for {
		call, ok := cur.(*ssa.Call)
		if !ok {
			break
		}
		if b, ok := call.Call.Value.(*ssa.Builtin); !ok || b.Name() != "append" {
			break
		}
		if sl, ok := call.Call.Args[1].(*ssa.Slice); ok {
			if al, ok := sl.X.(*ssa.Alloc); ok {
				n += len(arrayStores(al))
			} else {
				return -1
			}
		} else {
			return -1
		}
		cur = call.Call.Args[0]
	}
	if ms, ok := cur.(*ssa.MakeSlice); ok {
		n += len(indexedHeader(ms))
	}
	return n
}

// intHelperKind classifies a small pure module function over ints: "min" (returns the smaller of its two parameters),
// "max", "ceildiv" ((a + b - 1) / b), or "".
func intHelperKind(fn *ssa.Function) string {
	if fn == nil || len(fn.Params) != 2 || len(fn.Blocks) == 0 || fn.Signature.Results().Len() != 1 {
		return ""
	}
	a, b := ssa.Value(fn.Params[0]), ssa.Value(fn.Params[1])
	if !isIntType(a.Type()) || !isIntType(b.Type()) {
		return ""
	}
	for _, blk := range fn.Blocks {
		for _, ins := range blk.Instrs {
			switch ins.(type) {
			case *ssa.Call, *ssa.Store, *ssa.MapUpdate, *ssa.Go, *ssa.Defer, *ssa.Send:
				return "" // not pure
			}
		}
	}
	p := prover.New(fn)
	if len(fn.Blocks) == 1 {
		if ret, ok := fn.Blocks[0].Instrs[len(fn.Blocks[0].Instrs)-1].(*ssa.Return); ok {
			if q, isQ := binop(ret.Results[0], token.QUO); isQ && q.Y == b {
				d := p.LinOf(q.X).Add(p.LinOf(a).Add(p.LinOf(b), 1).Add(prover.Const(1), -1), -1)
				if d.IsConst() && d.C == 0 {
					return "ceildiv"
				}
			}
		}
	}
	isMin, isMax, n := true, true, 0
	for _, blk := range fn.Blocks {
		ret, ok := blk.Instrs[len(blk.Instrs)-1].(*ssa.Return)
		if !ok {
			continue
		}
		n++
		r := ret.Results[0]
		cands := []ssa.Value{r}
		if ph, isPhi := r.(*ssa.Phi); isPhi {
			cands = ph.Edges
		}
		for i, rv := range cands {
			at := blk
			if ph, isPhi := r.(*ssa.Phi); isPhi {
				at = ph.Block().Preds[i]
			}
			var other ssa.Value
			switch rv {
			case a:
				other = b
			case b:
				other = a
			default:
				return ""
			}
			var extra []prover.Fact
			if ph, isPhi := r.(*ssa.Phi); isPhi {
				extra = p.EdgeFacts(at, ph.Block())
			}
			if ok, _ := p.Prove(at, p.LinOf(other).Add(p.LinOf(rv), -1), extra); !ok {
				isMin = false
			}
			if ok, _ := p.Prove(at, p.LinOf(rv).Add(p.LinOf(other), -1), extra); !ok {
				isMax = false
			}
		}
	}
	switch {
	case n > 0 && isMin && !isMax:
		return "min"
	case n > 0 && isMax && !isMin:
		return "max"
	}
	return ""
}

// copySeg: copy(ms[off:], src) into a part buffer built as make([]byte, n) + copies.
type copySeg struct {
	off  int64
	src  ssa.Value
	call *ssa.Call
}

// copiesInto lists the copies into ms at constant offsets; clean reports that ms is used for nothing else than those
// copies and being stored (handed on) as a whole.
func copiesInto(ms *ssa.MakeSlice) (segs []copySeg, clean bool) {
	clean = true
	if ms.Referrers() == nil {
		return nil, false
	}
	isCopyTo := func(call *ssa.Call, dst ssa.Value) bool {
		b, ok := call.Call.Value.(*ssa.Builtin)
		return ok && b.Name() == "copy" && call.Call.Args[0] == dst
	}
	for _, r := range *ms.Referrers() {
		switch x := r.(type) {
		case *ssa.Call:
			if isCopyTo(x, ms) {
				segs = append(segs, copySeg{0, x.Call.Args[1], x})
			} else {
				clean = false
			}
		case *ssa.Slice:
			off := int64(0)
			if x.Low != nil {
				k, isK := constInt(x.Low)
				if !isK {
					clean = false
					continue
				}
				off = k
			}
			if x.High != nil || x.Referrers() == nil {
				clean = false
				continue
			}
			for _, rr := range *x.Referrers() {
				if call, ok := rr.(*ssa.Call); ok && isCopyTo(call, x) {
					segs = append(segs, copySeg{off, call.Call.Args[1], call})
				} else if _, isDbg := rr.(*ssa.DebugRef); !isDbg {
					clean = false
				}
			}
		case *ssa.Store:
			if x.Val != ssa.Value(ms) {
				clean = false
			}
		case *ssa.DebugRef:
		default:
			clean = false
		}
	}
	sort.Slice(segs, func(i, j int) bool { return segs[i].off < segs[j].off })
	return segs, clean
}

// literalOctets: the elements of a []byte{...} literal (new [n]byte with element stores, sliced whole).
func literalOctets(v ssa.Value) []ssa.Value {
	sl, ok := v.(*ssa.Slice)
	if !ok || sl.Low != nil || sl.High != nil {
		return nil
	}
	al, ok := sl.X.(*ssa.Alloc)
	if !ok {
		return nil
	}
	vals := arrayStores(al)
	for _, x := range vals {
		if x == nil {
			return nil
		}
	}
	return vals
}

func headerOf(fn *ssa.Function) ([]ssa.Value, token.Pos) {
	for _, b := range fn.Blocks {
		for _, ins := range b.Instrs {
			ms, ok := ins.(*ssa.MakeSlice)
			if !ok {
				continue
			}
			if sl, ok := ms.Type().Underlying().(*types.Slice); !ok || !isByte(sl.Elem()) {
				continue
			}
			// make([]byte, 6+n) ; copy(part, []byte{six octets}) ; copy(part[6:], payload)
			if segs, clean := copiesInto(ms); clean && len(segs) == 2 && segs[0].off == 0 {
				if h := literalOctets(segs[0].src); len(h) > 0 && int64(len(h)) == segs[1].off {
					return h, ms.Pos()
				}
			}
			if h := indexedHeader(ms); len(h) > 0 {
				return h, ms.Pos()
			}
			if k, ok := constInt(ms.Len); !ok || k != 0 {
				continue
			}
			if h := appendChain(ms, 6); len(h) > 0 {
				return h, ms.Pos()
			}
		}
	}
	return nil, token.NoPos
}

func isByte(t types.Type) bool {
	b, ok := t.Underlying().(*types.Basic)
	return ok && b.Kind() == types.Uint8
}

func binop(v ssa.Value, op token.Token) (*ssa.BinOp, bool) {
	b, ok := v.(*ssa.BinOp)
	return b, ok && b.Op == op
}

func isAddOne(v ssa.Value, base ssa.Value) bool {
	b, ok := binop(v, token.ADD)
	if !ok {
		return false
	}
	if k, ok := constInt(b.Y); ok && k == 1 && b.X == base {
		return true
	}
	if k, ok := constInt(b.X); ok && k == 1 && b.Y == base {
		return true
	}
	return false
}

// extractGenericSplit matches splitWithUDHI against the affine tiling template.
func extractGenericSplit(c *core.Ctx) *genericSplit {
	g := &genericSplit{}
	g.fn = c.Prog.SSAFunc(c.Prog.LookupFunc("", "splitWithUDHI"))
	if g.fn == nil || len(g.fn.Params) != 3 {
		g.problems = append(g.problems, "splitWithUDHI(data, perMsgLength, frameKey) not found")
		return g
	}
	fn := g.fn
	data, k := ssa.Value(fn.Params[0]), ssa.Value(fn.Params[1])
	p := prover.New(fn)
	// the payload slice data[begin:end]
	for _, b := range fn.Blocks {
		for _, ins := range b.Instrs {
			if sl, ok := ins.(*ssa.Slice); ok && sl.X == data && sl.Low != nil && sl.High != nil {
				if g.slice != nil {
					g.problems = append(g.problems, "more than one payload slice of the data")
				}
				g.slice = sl
			}
		}
	}
	if g.slice == nil {
		g.problems = append(g.problems, "no payload slice data[begin:end]")
		return g
	}
	// loop index
	loops := p.Loops()
	if len(loops) != 1 {
		g.problems = append(g.problems, fmt.Sprintf("expected one loop, found %d", len(loops)))
		return g
	}
	l := loops[0]
	for _, ins := range l.Header.Instrs {
		ph, ok := ins.(*ssa.Phi)
		if !ok {
			break
		}
		if !isIntType(ph.Type()) {
			continue
		}
		okPhi := true
		for i, pred := range l.Header.Preds {
			if l.Blocks[pred] {
				if !isAddOne(ph.Edges[i], ph) {
					okPhi = false
				}
			} else if kk, ok := constInt(ph.Edges[i]); !ok || kk != 0 {
				okPhi = false
			}
		}
		if okPhi {
			g.idx = ph
		}
	}
	if g.idx == nil {
		g.problems = append(g.problems, "no loop index of the form idx = 0; idx++")
		return g
	}
	// loop condition idx < msgCount
	if ifi, ok := l.Header.Instrs[len(l.Header.Instrs)-1].(*ssa.If); ok {
		if bo, ok := binop(ifi.Cond, token.LSS); ok && bo.X == ssa.Value(g.idx) && l.Blocks[l.Header.Succs[0]] {
			g.msgCount = bo.Y
		}
	}
	if g.msgCount == nil {
		g.problems = append(g.problems, "the loop does not run while idx < msgCount")
		return g
	}
	// msgCount = ceil(len(data), k)
	if call, ok := g.msgCount.(*ssa.Call); ok {
		if cal := call.Call.StaticCallee(); cal != nil && cal.Pkg == fn.Pkg && len(call.Call.Args) == 2 {
			tl := p.LinOf(call.Call.Args[0]).Add(p.LenOf(data), -1)
			if tl.IsConst() && tl.C == 0 && call.Call.Args[1] == k {
				g.ceilCall = call
			}
		}
	}
	// ... or written out: (len(data) + k - 1) / k
	inlineCeil := false
	if q, ok := binop(g.msgCount, token.QUO); ok && q.Y == k {
		d := p.LinOf(q.X).Add(p.LenOf(data).Add(p.LinOf(k), 1).Add(prover.Const(1), -1), -1)
		inlineCeil = d.IsConst() && d.C == 0
	}
	if g.ceilCall != nil && intHelperKind(g.ceilCall.Call.StaticCallee()) != "ceildiv" {
		g.ceilCall = nil
	}
	g.ceilInline = inlineCeil
	if g.ceilCall == nil && !inlineCeil {
		g.problems = append(g.problems, "the part count is not ceil(len(data), perMsgLength)")
	}
	// begin = idx*k, end = min(idx*k + k, total): compared as linear forms over the monomial idx*k
	idxK := p.LinOf(g.idx)
	var mono prover.Lin
	{
		// build the monomial through the prover itself: find any value in the function equal to idx*k
		found := false
		for _, b := range fn.Blocks {
			for _, ins := range b.Instrs {
				if m, ok := ins.(*ssa.BinOp); ok && m.Op == token.MUL && ((m.X == ssa.Value(g.idx) && m.Y == k) || (m.Y == ssa.Value(g.idx) && m.X == k)) {
					mono, found = p.LinOf(m), true
				}
			}
		}
		if !found {
			// (idx+1)*k - k
			for _, b := range fn.Blocks {
				for _, ins := range b.Instrs {
					if m, ok := ins.(*ssa.BinOp); ok && m.Op == token.MUL && (m.X == k || m.Y == k) {
						cand := p.LinOf(m).Add(p.LinOf(k), -1)
						if len(cand.T) == 1 && cand.C == 0 {
							mono, found = cand, true
						}
					}
				}
			}
		}
		if !found {
			// a running cursor: begin starts at 0 and advances by perMsgLength on exactly the edges on which idx advances by 1,
			// so begin == idx*perMsgLength at the head of every iteration
			for _, ins := range l.Header.Instrs {
				ph, ok := ins.(*ssa.Phi)
				if !ok {
					break
				}
				if ph == g.idx || !isIntType(ph.Type()) {
					continue
				}
				okCur := true
				for i, pred := range l.Header.Preds {
					if l.Blocks[pred] {
						d := p.LinOf(ph.Edges[i]).Add(p.LinOf(ph), -1).Add(p.LinOf(k), -1)
						if !d.IsConst() || d.C != 0 || !isAddOne(g.idx.Edges[i], g.idx) {
							okCur = false
						}
					} else if kk, isK := constInt(ph.Edges[i]); !isK || kk != 0 {
						okCur = false
					}
				}
				if okCur {
					mono, found = p.LinOf(ph), true
				}
			}
		}
		if !found {
			g.problems = append(g.problems, "no product idx*perMsgLength found")
		}
	}
	_ = idxK
	eqLin := func(a, b prover.Lin) bool { d := a.Add(b, -1); return d.IsConst() && d.C == 0 }
	if mono.T != nil && !eqLin(p.LinOf(g.slice.Low), mono) {
		g.problems = append(g.problems, "the part does not begin at idx*perMsgLength")
	}
	endOK := false
	if ph, ok := g.slice.High.(*ssa.Phi); ok && len(ph.Edges) == 2 && mono.T != nil {
		fullLin := mono.Add(p.LinOf(k), 1)
		var full, clamp ssa.Value
		for _, e := range ph.Edges {
			if eqLin(p.LinOf(e), fullLin) {
				full = e
			} else if eqLin(p.LinOf(e), p.LenOf(data)) {
				clamp = e
			}
		}
		if full != nil && clamp != nil {
			// the clamp edge must be taken exactly when full > total
			for i, pred := range ph.Block().Preds {
				if ph.Edges[i] != clamp || len(pred.Preds) != 1 {
					continue
				}
				if ifi, ok := pred.Preds[0].Instrs[len(pred.Preds[0].Instrs)-1].(*ssa.If); ok && pred.Preds[0].Succs[0] == pred {
					if bo, ok := binop(ifi.Cond, token.GTR); ok && eqLin(p.LinOf(bo.X), fullLin) && eqLin(p.LinOf(bo.Y), p.LenOf(data)) {
						endOK = true
					}
					if bo, ok := binop(ifi.Cond, token.LSS); ok && eqLin(p.LinOf(bo.Y), fullLin) && eqLin(p.LinOf(bo.X), p.LenOf(data)) {
						endOK = true
					}
				}
			}
		}
	}
	// ... or through a min helper: end = min((idx+1)*k, len(data)) in either argument order
	if call, ok := g.slice.High.(*ssa.Call); ok && !endOK && mono.T != nil {
		if cal := call.Call.StaticCallee(); cal != nil && len(call.Call.Args) == 2 && intHelperKind(cal) == "min" {
			fullLin := mono.Add(p.LinOf(k), 1)
			x, y := p.LinOf(call.Call.Args[0]), p.LinOf(call.Call.Args[1])
			if (eqLin(x, fullLin) && eqLin(y, p.LenOf(data))) || (eqLin(y, fullLin) && eqLin(x, p.LenOf(data))) {
				endOK = true
			}
		}
	}
	if !endOK {
		g.problems = append(g.problems, "the part does not end at min((idx+1)*perMsgLength, len(data))")
	}
	// the only skip is begin == end
	g.header, g.headerPos = headerOf(fn)
	g.ok = len(g.problems) == 0
	return g
}

// extractPackedSplit matches encodeAndSplitGSM7Packed against the cursor template.
func extractPackedSplit(c *core.Ctx) *packedSplit {
	g := &packedSplit{}
	g.fn = c.Prog.SSAFunc(c.Prog.LookupFunc("", "encodeAndSplitGSM7Packed"))
	if g.fn == nil {
		g.problems = append(g.problems, "encodeAndSplitGSM7Packed not found")
		return g
	}
	fn := g.fn
	p := prover.New(fn)
	loops := p.Loops()
	if len(loops) != 2 {
		g.problems = append(g.problems, fmt.Sprintf("expected two loops (count, cut), found %d", len(loops)))
		return g
	}
	type cursorLoop struct {
		cursor  *ssa.Phi
		counter *ssa.Phi
		call    *ssa.Call
		bound   ssa.Value
	}
	match := func(l *prover.Loop) (*cursorLoop, string) {
		cl := &cursorLoop{}
		for _, ins := range l.Header.Instrs {
			ph, ok := ins.(*ssa.Phi)
			if !ok {
				break
			}
			if !isIntType(ph.Type()) {
				continue
			}
			isCounter, isCursor := true, true
			var call *ssa.Call
			for i, pred := range l.Header.Preds {
				if !l.Blocks[pred] {
					if kk, ok := constInt(ph.Edges[i]); !ok || kk != 0 {
						isCounter, isCursor = false, false
					}
					continue
				}
				if !isAddOne(ph.Edges[i], ph) {
					isCounter = false
				}
				cc, ok := ph.Edges[i].(*ssa.Call)
				if !ok || cc.Call.StaticCallee() == nil || cc.Call.StaticCallee().Pkg != fn.Pkg || len(cc.Call.Args) != 3 || cc.Call.Args[1] != ssa.Value(ph) {
					isCursor = false
				} else {
					call = cc
				}
			}
			if isCounter {
				cl.counter = ph
			}
			if isCursor && call != nil {
				cl.cursor, cl.call = ph, call
			}
		}
		if cl.cursor == nil || cl.counter == nil {
			return nil, "loop without a cursor `begin = partEnd(septets, begin, k)` and a counter"
		}
		ifi, ok := l.Header.Instrs[len(l.Header.Instrs)-1].(*ssa.If)
		if !ok {
			return nil, "loop header does not test the cursor"
		}
		// the stay-in-loop condition, normalised to `cursor < bound`: `c < b` / `b > c` with the true edge inside the loop,
		// or `c >= b` / `b <= c` with the true edge leaving it (for { if c >= b { break } ... })
		var bound ssa.Value
		if bo, ok := ifi.Cond.(*ssa.BinOp); ok {
			stayTrue := l.Blocks[l.Header.Succs[0]] && !l.Blocks[l.Header.Succs[1]]
			stayFalse := l.Blocks[l.Header.Succs[1]] && !l.Blocks[l.Header.Succs[0]]
			switch {
			case bo.Op == token.LSS && bo.X == ssa.Value(cl.cursor) && stayTrue:
				bound = bo.Y
			case bo.Op == token.GTR && bo.Y == ssa.Value(cl.cursor) && stayTrue:
				bound = bo.X
			case bo.Op == token.GEQ && bo.X == ssa.Value(cl.cursor) && stayFalse:
				bound = bo.Y
			case bo.Op == token.LEQ && bo.Y == ssa.Value(cl.cursor) && stayFalse:
				bound = bo.X
			}
		}
		if bound == nil {
			return nil, "the loop does not run while begin < len(septets)"
		}
		d := p.LinOf(bound).Add(p.LenOf(cl.call.Call.Args[0]), -1)
		if !d.IsConst() || d.C != 0 {
			return nil, "the loop bound is not the length of the septet buffer passed to the boundary helper"
		}
		return cl, ""
	}
	l1, why1 := match(loops[0])
	l2, why2 := match(loops[1])
	if l1 == nil || l2 == nil {
		if why := g.matchRecorded(p, loops[0], loops[1]); why == "" {
			g.header, _ = headerOf(fn)
			g.ok = len(g.problems) == 0
			return g
		} else if g.listForm {
			g.problems = append(g.problems, why)
			return g
		}
		g.problems = append(g.problems, why1+why2)
		return g
	}
	g.msgCount, g.countCall = l1.counter, l1.call
	g.idx, g.begin, g.endCall = l2.counter, l2.cursor, l2.call
	g.idxV = l2.counter
	g.septets = l2.call.Call.Args[0]
	g.helper = l2.call.Call.StaticCallee()
	g.twin = l1.call.Call.StaticCallee() == l2.call.Call.StaticCallee() && l1.call.Call.Args[0] == l2.call.Call.Args[0] &&
		role(plain, l1.call.Call.Args[2]) == role(plain, l2.call.Call.Args[2])
	if !g.twin {
		g.problems = append(g.problems, "the counting loop and the cutting loop do not iterate the same boundary recurrence (the announced total can differ from the number of parts)")
	}
	// payload slice septets[begin:end] with end = the helper call of this iteration
	for _, b := range fn.Blocks {
		for _, ins := range b.Instrs {
			if sl, ok := ins.(*ssa.Slice); ok && sl.X == g.septets && sl.Low == ssa.Value(g.begin) && sl.High == ssa.Value(g.endCall) {
				g.slice = sl
			}
		}
	}
	if g.slice == nil {
		g.problems = append(g.problems, "the part packed is not septets[begin:partEnd(begin)]")
	} else {
		// it must be executed on every iteration: its block dominates the latch
		for _, lt := range loops[1].Latches {
			if !g.slice.Block().Dominates(lt) {
				g.problems = append(g.problems, "a part can be skipped (the payload slice does not dominate the back edge)")
			}
		}
	}
	g.header, _ = headerOf(fn)
	g.ok = len(g.problems) == 0
	return g
}

// helperPostconditions proves, for every return of the boundary helper, begin < ret <= len(septets) and ret-begin <= k,
// assuming 0 <= begin < len(septets) and k >= 2.
func helperPostconditions(c *core.Ctx, helper *ssa.Function) (string, bool) {
	if helper == nil || len(helper.Params) != 3 {
		return "boundary helper not found", false
	}
	p := prover.New(helper)
	sept, begin, k := helper.Params[0], helper.Params[1], helper.Params[2]
	assume := []prover.Fact{
		{L: p.LinOf(begin), Why: "assume begin >= 0"},
		{L: p.LenOf(sept).Add(p.LinOf(begin), -1).Add(prover.Const(1), -1), Why: "assume begin < len"},
		{L: p.LinOf(k).Add(prover.Const(2), -1), Why: "assume k >= 2"},
	}
	n := 0
	for _, b := range helper.Blocks {
		ret, ok := b.Instrs[len(b.Instrs)-1].(*ssa.Return)
		if !ok || len(ret.Results) != 1 {
			continue
		}
		n++
		r := p.LinOf(ret.Results[0])
		goals := map[string]prover.Lin{
			"ret > begin":      r.Add(p.LinOf(begin), -1).Add(prover.Const(1), -1),
			"ret <= len":       p.LenOf(sept).Add(r, -1),
			"ret - begin <= k": p.LinOf(k).Add(r, -1).Add(p.LinOf(begin), 1),
		}
		for what, g := range goals {
			if ok, _ := p.Prove(b, g, assume); !ok {
				return fmt.Sprintf("cannot prove `%s` for the return at %s", what, c.Prog.Pos(ret.Pos())), false
			}
		}
	}
	if n == 0 {
		return "helper has no return", false
	}
	return fmt.Sprintf("%d returns: begin < ret <= len, ret-begin <= k", n), true
}

// helperShape: the paths of the boundary helper, judged on linear forms (robust to how the index is spelled):
//   - a path that tests no septet returns len(septets) and has established begin+k >= len(septets);
//   - a path that found septets[i] == ESC returns i, with i == begin+k-1 (the last septet of the candidate part);
//   - a path that found septets[i] != ESC returns i+1, with the same i.
func helperShape(c *core.Ctx, helper *ssa.Function, escConst int64) (string, bool) {
	ps, err := paths.Enumerate(helper, paths.Config{})
	if err != nil {
		return err.Error(), false
	}
	if len(helper.Params) != 3 {
		return "unexpected helper arity", false
	}
	p := prover.New(helper)
	sept, begin, k := helper.Params[0], helper.Params[1], helper.Params[2]
	full := p.LinOf(begin).Add(p.LinOf(k), 1) // begin + k
	// absolute index of an element address with respect to the septet parameter
	var absIndex func(e paths.Event, v ssa.Value) (prover.Lin, bool)
	absIndex = func(e paths.Event, v ssa.Value) (prover.Lin, bool) {
		v = e.Resolve(v)
		if u, ok := v.(*ssa.UnOp); ok && u.Op == token.MUL {
			v = e.Resolve(u.X)
		}
		ia, ok := v.(*ssa.IndexAddr)
		if !ok {
			return prover.Lin{}, false
		}
		idx := pathLin(p, e, ia.Index)
		base := e.Resolve(ia.X)
		for {
			if base == ssa.Value(sept) {
				return idx, true
			}
			sl, ok := base.(*ssa.Slice)
			if !ok {
				return prover.Lin{}, false
			}
			if sl.Low != nil {
				idx = idx.Add(pathLin(p, e, sl.Low), 1)
			}
			base = e.Resolve(sl.X)
		}
	}
	eq := func(a, b prover.Lin) bool { d := a.Add(b, -1); return d.IsConst() && d.C == 0 }
	seenFinal, seenShift, seenFull := false, false, false
	for _, pth := range ps {
		if pth.Aborted != "" || len(pth.Results) != 1 {
			return "helper path not analysable", false
		}
		var lastEv paths.Event
		if len(pth.Events) > 0 {
			lastEv = pth.Events[len(pth.Events)-1]
		}
		r := pathLin(p, lastEv, pth.Results[0])
		var escIdx *prover.Lin
		escTaken := false
		finalGuard := false
		for _, e := range pth.Events {
			if e.Kind != paths.EvBranch {
				continue
			}
			bo, ok := e.Cond.(*ssa.BinOp)
			if !ok {
				continue
			}
			if bo.Op == token.EQL || bo.Op == token.NEQ {
				for _, pair := range [][2]ssa.Value{{bo.X, bo.Y}, {bo.Y, bo.X}} {
					if kk, ok := constInt(e.Resolve(pair[1])); ok && kk == escConst {
						if ix, ok := absIndex(e, pair[0]); ok {
							escIdx = &ix
							escTaken = (bo.Op == token.EQL) == e.Taken
						}
					}
				}
				continue
			}
			// an inequality that establishes begin+k >= len(septets)
			for _, f := range condFactsOf(p, e) {
				if eq(f, full.Add(p.LenOf(sept), -1)) {
					finalGuard = true
				}
			}
		}
		switch {
		case escIdx == nil:
			if !eq(r, p.LenOf(sept)) || !finalGuard {
				return fmt.Sprintf("a path that tests no septet returns %s (expected len(septets) under begin+k >= len)", r), false
			}
			seenFinal = true
		case !eq(*escIdx, full.Add(prover.Const(1), -1)):
			return fmt.Sprintf("the septet tested for ESC is at index %s, not at begin+k-1 (the last septet of the candidate part)", *escIdx), false
		case escTaken:
			if !eq(r, *escIdx) {
				return fmt.Sprintf("with ESC as the last septet the helper returns %s instead of begin+k-1", r), false
			}
			seenShift = true
		default:
			if !eq(r, full) {
				return fmt.Sprintf("without ESC at the boundary the helper returns %s instead of begin+k", r), false
			}
			seenFull = true
		}
	}
	if !(seenFinal && seenShift && seenFull) {
		return fmt.Sprintf("helper paths incomplete (final %v, shifted %v, full %v)", seenFinal, seenShift, seenFull), false
	}
	return "final part -> len; last septet of a non-final part is ESC -> one less; otherwise a full part", true
}

// pathLin linearises v with the phis resolved by the edges taken on the path.
func pathLin(p *prover.F, e paths.Event, v ssa.Value) prover.Lin {
	v = e.Resolve(v)
	switch x := v.(type) {
	case *ssa.BinOp:
		if isIntType(x.Type()) {
			switch x.Op {
			case token.ADD:
				return pathLin(p, e, x.X).Add(pathLin(p, e, x.Y), 1)
			case token.SUB:
				return pathLin(p, e, x.X).Add(pathLin(p, e, x.Y), -1)
			}
		}
	case *ssa.Convert:
		if isIntType(x.Type()) && isIntType(x.X.Type()) {
			return pathLin(p, e, x.X)
		}
	}
	return p.LinOf(v)
}

// condFactsOf: the linear facts (L >= 0) a branch event establishes.
func condFactsOf(p *prover.F, e paths.Event) []prover.Lin {
	bo, ok := e.Cond.(*ssa.BinOp)
	if !ok || !isIntType(bo.X.Type()) {
		return nil
	}
	x, y := pathLin(p, e, bo.X), pathLin(p, e, bo.Y)
	op := bo.Op
	if !e.Taken {
		op = map[token.Token]token.Token{token.LSS: token.GEQ, token.GEQ: token.LSS, token.GTR: token.LEQ, token.LEQ: token.GTR}[op]
	}
	switch op {
	case token.GEQ:
		return []prover.Lin{x.Add(y, -1)}
	case token.LEQ:
		return []prover.Lin{y.Add(x, -1)}
	case token.GTR:
		return []prover.Lin{x.Add(y, -1).Add(prover.Const(1), -1)}
	case token.LSS:
		return []prover.Lin{y.Add(x, -1).Add(prover.Const(1), -1)}
	}
	return nil
}

// matchRecorded recognises the recorded-boundaries form of the packed splitter:
//
//	for c := 0; c < len(s); { c = partEnd(s, c, k); ends = append(ends, c) }     // recording loop
//	n := len(ends) ...
//	b := 0; for i, e := range ends { ... s[b:e] ...; b = e }                       // cutting loop
//
// The list holds the cursor values of the recurrence in order (it starts empty, receives exactly the new cursor on every
// iteration, and is only read afterwards); the cutting loop visits every element in order, cuts [b, e) and moves b to e on
// every iteration. The parts are therefore the same as with two loops iterating the recurrence: [c_j, c_{j+1}).
// It returns "" on a match; listForm is set as soon as a list of recorded cursors was seen (the reason then explains
// what does not fit).
func (g *packedSplit) matchRecorded(p *prover.F, rec, cut *prover.Loop) string {
	fn := g.fn
	// recording loop: cursor and list phis
	var cursor, list *ssa.Phi
	var call, app *ssa.Call
	for _, ins := range rec.Header.Instrs {
		ph, ok := ins.(*ssa.Phi)
		if !ok {
			break
		}
		if isIntType(ph.Type()) {
			okc := true
			var cc *ssa.Call
			for i, pred := range rec.Header.Preds {
				if !rec.Blocks[pred] {
					if k, isK := constInt(ph.Edges[i]); !isK || k != 0 {
						okc = false
					}
					continue
				}
				x, isCall := ph.Edges[i].(*ssa.Call)
				if !isCall || x.Call.StaticCallee() == nil || x.Call.StaticCallee().Pkg != fn.Pkg || len(x.Call.Args) != 3 || x.Call.Args[1] != ssa.Value(ph) {
					okc = false
				} else {
					cc = x
				}
			}
			if okc && cc != nil {
				cursor, call = ph, cc
			}
			continue
		}
		if _, isSlice := ph.Type().Underlying().(*types.Slice); isSlice {
			okl := true
			var ac *ssa.Call
			for i, pred := range rec.Header.Preds {
				if !rec.Blocks[pred] {
					switch e := ph.Edges[i].(type) {
					case *ssa.Const:
						if !e.IsNil() {
							okl = false
						}
					case *ssa.MakeSlice:
						if k, isK := constInt(e.Len); !isK || k != 0 {
							okl = false
						}
					default:
						okl = false
					}
					continue
				}
				x, isCall := ph.Edges[i].(*ssa.Call)
				if !isCall {
					okl = false
					continue
				}
				if bi, isB := x.Call.Value.(*ssa.Builtin); !isB || bi.Name() != "append" || x.Call.Args[0] != ssa.Value(ph) {
					okl = false
					continue
				}
				ac = x
			}
			if okl && ac != nil {
				list, app = ph, ac
			}
		}
	}
	if list == nil || cursor == nil {
		return "no recording loop (cursor `c = partEnd(s, c, k)` and a list that receives it)"
	}
	g.listForm, g.list = true, list
	// what is appended: exactly the new cursor value
	one := false
	if sl, ok := app.Call.Args[1].(*ssa.Slice); ok {
		if al, ok := sl.X.(*ssa.Alloc); ok {
			if vs := arrayStores(al); len(vs) == 1 && vs[0] == ssa.Value(call) {
				one = true
			}
		}
	}
	if !one {
		return "the recording loop does not append exactly the new cursor value to the list"
	}
	for _, lt := range rec.Latches {
		if !app.Block().Dominates(lt) || !call.Block().Dominates(lt) {
			return "a boundary can go unrecorded (the append does not dominate the back edge)"
		}
	}
	// the loop runs while cursor < len(s)
	ifi, ok := rec.Header.Instrs[len(rec.Header.Instrs)-1].(*ssa.If)
	if !ok {
		return "the recording loop header does not test the cursor"
	}
	bo, ok := ifi.Cond.(*ssa.BinOp)
	stay := ok && rec.Blocks[rec.Header.Succs[0]] && !rec.Blocks[rec.Header.Succs[1]]
	if !stay || !((bo.Op == token.LSS && bo.X == ssa.Value(cursor)) || (bo.Op == token.GTR && bo.Y == ssa.Value(cursor))) {
		return "the recording loop does not run while cursor < len(septets)"
	}
	bound := bo.Y
	if bo.Op == token.GTR {
		bound = bo.X
	}
	if d := p.LinOf(bound).Add(p.LenOf(call.Call.Args[0]), -1); !d.IsConst() || d.C != 0 {
		return "the recording loop's bound is not the length of the septet buffer passed to the boundary helper"
	}
	// afterwards the list is only read: len(list), list[i] loads, range
	var loads []*ssa.UnOp
	if list.Referrers() != nil {
		for _, r := range *list.Referrers() {
			switch x := r.(type) {
			case *ssa.Call:
				if x == app {
					continue
				}
				if bi, isB := x.Call.Value.(*ssa.Builtin); isB && bi.Name() == "len" {
					continue
				}
				return "the list of boundaries is passed on or changed after it was recorded (" + x.String() + ")"
			case *ssa.IndexAddr:
				if x.Referrers() != nil {
					for _, rr := range *x.Referrers() {
						if ld, isLd := rr.(*ssa.UnOp); isLd && ld.Op == token.MUL {
							loads = append(loads, ld)
							continue
						}
						if _, isDbg := rr.(*ssa.DebugRef); isDbg {
							continue
						}
						return "an element of the list of boundaries is written or its address taken"
					}
				}
			case *ssa.DebugRef:
			default:
				return "the list of boundaries is used other than by len, indexing and range (" + r.String() + ")"
			}
		}
	}
	// cutting loop: range over the list
	var ridx, begin *ssa.Phi
	var iv ssa.Value
	for _, ins := range cut.Header.Instrs {
		ph, ok := ins.(*ssa.Phi)
		if !ok {
			break
		}
		if !isIntType(ph.Type()) {
			continue
		}
		isR := true
		for i, pred := range cut.Header.Preds {
			if !cut.Blocks[pred] {
				if k, isK := constInt(ph.Edges[i]); !isK || k != -1 {
					isR = false
				}
				continue
			}
			if !isAddOne(ph.Edges[i], ph) {
				isR = false
			} else {
				iv = ph.Edges[i]
			}
		}
		if isR {
			ridx = ph
		}
	}
	if ridx == nil {
		return "the cutting loop is not a range over the list of boundaries"
	}
	for _, ins := range cut.Header.Instrs {
		if b, ok := ins.(*ssa.BinOp); ok && isAddOne(b, ridx) {
			iv = b
		}
	}
	cifi, ok := cut.Header.Instrs[len(cut.Header.Instrs)-1].(*ssa.If)
	if !ok {
		return "the cutting loop is not a range over the list of boundaries"
	}
	cbo, ok := cifi.Cond.(*ssa.BinOp)
	if !ok || cbo.Op != token.LSS || cbo.X != iv || !g.countIs(cbo.Y) || !cut.Blocks[cut.Header.Succs[0]] || cut.Blocks[cut.Header.Succs[1]] {
		return "the cutting loop does not visit every recorded boundary (index < len(list))"
	}
	// the element of this iteration
	var end *ssa.UnOp
	for _, ld := range loads {
		if ia := ld.X.(*ssa.IndexAddr); ia.Index == iv && cut.Blocks[ld.Block()] {
			end = ld
		}
	}
	if end == nil {
		return "the cutting loop does not read the boundary of its iteration (list[i])"
	}
	for _, ld := range loads {
		if ld != end {
			return "the list of boundaries is read at another place than list[i] of the cutting loop"
		}
	}
	// the running begin: 0 at entry, the boundary just used on every back edge
	for _, ins := range cut.Header.Instrs {
		ph, ok := ins.(*ssa.Phi)
		if !ok {
			break
		}
		if !isIntType(ph.Type()) || ph == ridx {
			continue
		}
		good := true
		for i, pred := range cut.Header.Preds {
			if !cut.Blocks[pred] {
				if k, isK := constInt(ph.Edges[i]); !isK || k != 0 {
					good = false
				}
				continue
			}
			if ph.Edges[i] != ssa.Value(end) {
				good = false
			}
		}
		if good {
			begin = ph
		}
	}
	if begin == nil {
		return "the cutting loop has no running start that begins at 0 and moves to the boundary just used on every iteration"
	}
	g.begin, g.endCall, g.countCall = begin, call, call
	g.idxV = iv
	g.septets = call.Call.Args[0]
	g.helper = call.Call.StaticCallee()
	g.twin = true
	for _, b := range fn.Blocks {
		for _, ins := range b.Instrs {
			if sl, ok := ins.(*ssa.Slice); ok && sl.X == g.septets && sl.Low == ssa.Value(begin) && sl.High == ssa.Value(end) {
				g.slice = sl
			}
		}
	}
	if g.slice == nil {
		g.problems = append(g.problems, "the part packed is not septets[begin:list[i]]")
	} else {
		for _, lt := range cut.Latches {
			if !g.slice.Block().Dominates(lt) {
				g.problems = append(g.problems, "a part can be skipped (the payload slice does not dominate the back edge)")
			}
		}
	}
	return ""
}
