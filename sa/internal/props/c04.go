package props

import (
	"fmt"
	"go/constant"
	"go/token"
	"go/types"
	"sort"
	"strings"

	"golang.org/x/tools/go/ssa"

	"verifsa/internal/core"
	"verifsa/internal/paths"
)

func init() {
	register(core.PropertyDef{
		ID:    "C04",
		Title: "Stream framing returns exactly the frames sent, under any arrival pattern",
		Explanation: "Typestate over the ConnReader interface. The four extractors ({CMPP,SMPP}Codec.{Decode,DecodeBlocked}) are loop-free users of " +
			"Peek/Size/Discard/io.ReadFull; whether octets are consumed depends only on which of these calls a path makes, so enumerating every SSA path " +
			"covers every chunking, truncation and fault sequence at once (the arrival pattern only selects the path). Every value is normalised to a role " +
			"expression (L = big-endian uint32 of the 4 prefix octets, Peek(L)#0, ...) and every branch to a canonical proposition. Rules: NOCONSUME (no path " +
			"returning 'incomplete' calls Discard/Read), PROGRESS ('incomplete' only under len(Peek(4))<4, Size()<L or len(Peek(L))<L, so a fully buffered frame " +
			"is never starved and `<` is not `<=`), EXACT (the only path returning a frame returns Peek(L)#0 after establishing len>=L and discards exactly L once, " +
			"checking both results), BLOCKED (a frame is returned only after both io.ReadFull calls reported nil, the body is read into frame[4:] of a buffer of L " +
			"octets and the prefix copied to frame[:4]; every error path returns a nil frame), LOWER (every use of L is preceded by L<4 refused with an error " +
			"without consuming), SIBLING (CMPP and SMPP codecs have identical path signatures).",
		Run: runC04,
	})
}

// role renders an SSA value as a name-independent expression.
func role(e paths.Event, v ssa.Value) string {
	v = e.Resolve(v)
	switch x := v.(type) {
	case *ssa.Const:
		if x.IsNil() {
			return "nil"
		}
		if x.Value != nil && x.Value.Kind() == constant.Int {
			return "k" + x.Value.ExactString()
		}
		return x.Value.String()
	case *ssa.Parameter:
		if f := x.Parent(); f != nil {
			for i, q := range f.Params {
				if q == x {
					return fmt.Sprintf("p%d", i)
				}
			}
		}
		return "param"
	case *ssa.Convert:
		return role(e, x.X)
	case *ssa.ChangeType:
		return role(e, x.X)
	case *ssa.ChangeInterface:
		return role(e, x.X)
	case *ssa.MakeInterface:
		return role(e, x.X)
	case *ssa.Extract:
		return fmt.Sprintf("%s#%d", role(e, x.Tuple), x.Index)
	case *ssa.MakeSlice:
		return "make(" + role(e, x.Len) + ")"
	case *ssa.MakeMap:
		return "the-map"
	case *ssa.Global:
		return "global:" + x.Name()
	case *ssa.Function:
		return "?" + canonName(x)
	case *ssa.Slice:
		// composite literal []T{a, b}: new [n]T with element stores, sliced whole
		if al, ok := x.X.(*ssa.Alloc); ok && x.Low == nil && x.High == nil {
			if vals := arrayStores(al); len(vals) > 0 {
				var parts []string
				for _, v := range vals {
					if v == nil {
						parts = append(parts, "?")
					} else {
						parts = append(parts, role(e, v))
					}
				}
				return "[" + strings.Join(parts, ",") + "]"
			}
		}
		// make([]T, N) with constant N compiles to new [N]T; slice [:N]
		if al, ok := x.X.(*ssa.Alloc); ok && x.Low == nil {
			if arr, ok := al.Type().Underlying().(*types.Pointer).Elem().Underlying().(*types.Array); ok {
				if hc, ok := x.High.(*ssa.Const); ok && hc.Value != nil && hc.Value.ExactString() == fmt.Sprint(arr.Len()) {
					return fmt.Sprintf("make(k%d)", arr.Len())
				}
				// var buf [N]T; buf[:] - the same fresh zeroed buffer
				if x.High == nil && len(arrayStores(al)) == 0 {
					return fmt.Sprintf("make(k%d)", arr.Len())
				}
			}
		}
		// buf[lo:hi] of such a buffer
		if al, ok := x.X.(*ssa.Alloc); ok && x.Low != nil && len(arrayStores(al)) == 0 {
			if arr, ok := al.Type().Underlying().(*types.Pointer).Elem().Underlying().(*types.Array); ok {
				hi := ""
				if x.High != nil {
					hi = role(e, x.High)
					if hi == fmt.Sprintf("k%d", arr.Len()) {
						hi = ""
					}
				}
				lo := role(e, x.Low)
				if lo == "k0" {
					lo = ""
				}
				return fmt.Sprintf("make(k%d)[%s:%s]", arr.Len(), lo, hi)
			}
		}
		lo, hi := "", ""
		if x.Low != nil {
			lo = role(e, x.Low)
			if lo == "k0" {
				lo = ""
			}
		}
		base := role(e, x.X)
		if x.High != nil {
			hi = role(e, x.High)
			// x[a:len(x)] is x[a:]: for make(N) the length is N
			if strings.HasPrefix(base, "make(") && base == "make("+hi+")" {
				hi = ""
			}
			if hi == "len("+base+")" {
				hi = ""
			}
		}
		return base + "[" + lo + ":" + hi + "]"
	case *ssa.Lookup:
		return role(e, x.X) + "[" + role(e, x.Index) + "]"
	case *ssa.Index:
		return role(e, x.X) + "[" + role(e, x.Index) + "]"
	case *ssa.IndexAddr:
		return "&" + role(e, x.X) + "[" + role(e, x.Index) + "]"
	case *ssa.FieldAddr:
		if _, f, ok := paths.FieldOf(x); ok {
			return "&" + role(e, x.X) + "." + f.Name()
		}
	case *ssa.UnOp:
		if g, ok := x.X.(*ssa.Global); ok && x.Op == token.MUL {
			return "global:" + g.Name()
		}
		if ia, ok := x.X.(*ssa.IndexAddr); ok && x.Op == token.MUL {
			return role(e, ia.X) + "[" + role(e, ia.Index) + "]"
		}
		if fa, ok := x.X.(*ssa.FieldAddr); ok && x.Op == token.MUL {
			if _, f, ok := paths.FieldOf(fa); ok {
				return role(e, fa.X) + "." + f.Name()
			}
		}
		if x.Op == token.MUL {
			return "*" + role(e, x.X)
		}
		return x.Op.String() + role(e, x.X)
	case *ssa.BinOp:
		if (x.Op == token.ADD || x.Op == token.SUB) && isIntType(x.Type()) {
			return linearRole(e, x)
		}
		if info, ok := beCompose(x); ok {
			name := fmt.Sprintf("be%d", 8*info.width)
			if !info.big {
				name = fmt.Sprintf("uint%d-other-order", 8*info.width)
			}
			return fmt.Sprintf("%s(%s@k%d)", name, role(e, info.base), info.off)
		}
		return "(" + role(e, x.X) + x.Op.String() + role(e, x.Y) + ")"
	case *ssa.Call:
		return callRole(e, x)
	}
	return "?" + v.Name()
}

// linearRole prints an integer sum/difference in a canonical form: constants folded, equal atoms cancelled, terms
// sorted - so that `4 + (L - 4)` and `L` have the same role.
func linearRole(e paths.Event, v ssa.Value) string {
	terms := map[string]int64{}
	var k int64
	var walk func(v ssa.Value, sign int64, depth int)
	walk = func(v ssa.Value, sign int64, depth int) {
		v = e.Resolve(v)
		if depth < 16 {
			switch x := v.(type) {
			case *ssa.Const:
				if c, ok := constInt(x); ok {
					k += sign * c
					return
				}
			case *ssa.BinOp:
				if isIntType(x.Type()) {
					switch x.Op {
					case token.ADD:
						walk(x.X, sign, depth+1)
						walk(x.Y, sign, depth+1)
						return
					case token.SUB:
						walk(x.X, sign, depth+1)
						walk(x.Y, -sign, depth+1)
						return
					}
				}
			}
		}
		terms[role(e, v)] += sign
	}
	walk(v, 1, 0)
	var names []string
	for n, c := range terms {
		if c != 0 {
			names = append(names, n)
		}
	}
	sort.Strings(names)
	if len(names) == 0 {
		return fmt.Sprintf("k%d", k)
	}
	if len(names) == 1 && terms[names[0]] == 1 && k == 0 {
		return names[0]
	}
	out := "("
	for i, n := range names {
		c := terms[n]
		switch {
		case c == 1 && i == 0:
			out += n
		case c == 1:
			out += "+" + n
		case c == -1:
			out += "-" + n
		default:
			out += fmt.Sprintf("%+d*%s", c, n)
		}
	}
	if k > 0 {
		out += fmt.Sprintf("+k%d", k)
	} else if k < 0 {
		out += fmt.Sprintf("-k%d", -k)
	}
	return out + ")"
}

func callRole(e paths.Event, x *ssa.Call) string {
	var args []string
	name := ""
	switch {
	case x.Call.IsInvoke():
		name = role(e, x.Call.Value) + "." + x.Call.Method.Name()
		for _, a := range x.Call.Args {
			args = append(args, role(e, a))
		}
	default:
		if b, ok := x.Call.Value.(*ssa.Builtin); ok {
			name = b.Name()
		} else if c := x.Call.StaticCallee(); c != nil {
			name = canonName(c)
			if c.Pkg != nil && c.Pkg.Pkg.Path() == "encoding/binary" && (name == "Uint32" || name == "Uint16" || name == "Uint64") {
				bits := strings.TrimPrefix(name, "Uint")
				name = "be" + bits
				if r := c.Signature.Recv(); r == nil || !strings.Contains(r.Type().String(), "bigEndian") {
					name = "uint" + bits + "-other-order"
				}
			}
		} else {
			name = "dyn"
		}
		as := x.Call.Args
		if c := x.Call.StaticCallee(); c != nil && c.Signature.Recv() != nil && len(as) > 0 {
			as = as[1:] // drop the receiver
		}
		if strings.HasPrefix(name, "be") && len(as) == 1 {
			// beN(x[lo:hi]) reads the N/8 octets of x from lo: the same role as the hand-written composition
			arg := e.Resolve(as[0])
			if sl, ok := arg.(*ssa.Slice); ok {
				if al, isAlloc := sl.X.(*ssa.Alloc); !isAlloc {
					off := "k0"
					if sl.Low != nil {
						off = role(e, sl.Low)
					}
					return name + "(" + role(e, sl.X) + "@" + off + ")"
				} else if arr, isArr := al.Type().Underlying().(*types.Pointer).Elem().Underlying().(*types.Array); isArr && len(arrayStores(al)) == 0 {
					// a local array used as the buffer: var head [4]byte; be16(head[2:4])
					if hc, isK := sl.High.(*ssa.Const); !(sl.Low == nil && isK && hc.Value != nil && hc.Value.ExactString() == fmt.Sprint(arr.Len())) {
						off := "k0"
						if sl.Low != nil {
							off = role(e, sl.Low)
						}
						return fmt.Sprintf("%s(make(k%d)@%s)", name, arr.Len(), off)
					}
				}
			}
			return name + "(" + role(e, arg) + "@k0)"
		}
		for _, a := range as {
			args = append(args, role(e, a))
		}
		// copy(dst, src) with a source of constant length N and an unsliced destination moves min(len(dst), N) octets: the
		// same effect as copy(dst[:N], src) wherever dst holds at least N octets (which the length rules establish)
		if name == "copy" && len(args) == 2 && strings.HasPrefix(args[1], "make(k") && strings.HasSuffix(args[1], ")") && !strings.Contains(args[1][5:len(args[1])-1], "(") && !strings.HasSuffix(args[0], "]") {
			args[0] += "[:" + args[1][5:len(args[1])-1] + "]"
		}
	}
	return name + "(" + strings.Join(args, ",") + ")"
}

// proposition canonicalises a branch into a true statement.
func proposition(e paths.Event) string {
	b, ok := e.Cond.(*ssa.BinOp)
	if !ok {
		r := role(e, e.Cond)
		if !e.Taken {
			return "!" + r
		}
		return r
	}
	x, y := role(e, b.X), role(e, b.Y)
	op := b.Op
	if !e.Taken {
		op = map[token.Token]token.Token{token.LSS: token.GEQ, token.GEQ: token.LSS, token.GTR: token.LEQ, token.LEQ: token.GTR, token.EQL: token.NEQ, token.NEQ: token.EQL}[op]
	}
	switch op {
	case token.GTR:
		return y + "<" + x
	case token.LEQ:
		return y + ">=" + x
	case token.LSS:
		return x + "<" + y
	case token.GEQ:
		return x + ">=" + y
	case token.EQL, token.NEQ:
		// constants and nil go to the right, otherwise lexical order
		isK := func(r string) bool {
			return r == "nil" || (len(r) > 1 && r[0] == 'k' && r[1] >= '0' && r[1] <= '9') || (len(r) > 0 && r[0] == '"')
		}
		if (isK(x) && !isK(y)) || (isK(x) == isK(y) && y < x) {
			x, y = y, x
		}
		return x + op.String() + y
	}
	return x + op.String() + y
}

type c04path struct {
	sig     []string
	calls   []string
	props   []string
	r0, r1  string
	sets    []string
	results []string
	r1err   bool // error result is non-nil
	aborted string
}

func c04Paths(c *core.Ctx, fn *ssa.Function) ([]c04path, error) { return c04PathsOpt(c, fn, false) }

// c04PathsOpt: with inlineHelpers, unexported functions of the same package are inlined (two levels), so that rules on
// the path signatures are insensitive to a fragment having been extracted into a helper.
func c04PathsOpt(c *core.Ctx, fn *ssa.Function, inlineHelpers bool) ([]c04path, error) {
	// prune branches that contradict an earlier nil test of the very same value on the same path
	decide := func(w *paths.Walker, cond ssa.Value) int {
		subj, neq, ok := nilTest(cond)
		if !ok {
			return 0
		}
		// an error value that an inlined helper returned: nil, a freshly made error, or one of the package's error variables
		known := 0
		switch rv := w.Resolve(subj).(type) {
		case *ssa.Const:
			if rv.IsNil() {
				known = -1
			}
		case *ssa.Call:
			if cal := rv.Call.StaticCallee(); cal != nil && cal.Pkg != nil && ((cal.Pkg.Pkg.Path() == "fmt" && cal.Name() == "Errorf") || (cal.Pkg.Pkg.Path() == "errors" && cal.Name() == "New")) {
				known = 1
			}
		case *ssa.UnOp:
			if g, isG := rv.X.(*ssa.Global); isG && rv.Op == token.MUL && strings.HasPrefix(g.Name(), "Err") && isErrorType(rv.Type()) {
				known = 1
			}
		}
		if known != 0 {
			if (known == 1) == neq {
				return 1
			}
			return -1
		}
		st := nilStateOf(w.Events(), subj, w)
		if st == nUnknown {
			return 0
		}
		if (st == nNonNil) == neq {
			return 1
		}
		return -1
	}
	cfg := paths.Config{MaxDepth: 1, Decide: decide}
	if inlineHelpers {
		cfg.MaxDepth = 2
		cfg.Inline = func(call *ssa.Call, callee *ssa.Function) bool {
			// unexported functions, and unexported methods called on the entry point's own receiver (fail / succeed helpers)
			ownMethod := callee.Signature.Recv() != nil && fn.Signature.Recv() != nil && len(call.Call.Args) > 0 && len(fn.Params) > 0 && call.Call.Args[0] == ssa.Value(fn.Params[0]) && callee.Name() != "Name"
			return callee.Pkg == fn.Pkg && callee.Object() != nil && !callee.Object().Exported() && (callee.Signature.Recv() == nil || ownMethod) && len(callee.Blocks) > 0 &&
				canonName(callee) != "splitWithUDHI" && canonName(callee) != "encodeAndSplitGSM7Packed" && canonName(callee) != "newBatchEncoder"
		}
	}
	ps, err := paths.Enumerate(fn, cfg)
	if err != nil {
		return nil, err
	}
	var out []c04path
	for _, p := range ps {
		cp := c04path{aborted: p.Aborted}
		var last paths.Event
		for _, e := range p.Events {
			last = e
			switch e.Kind {
			case paths.EvBranch:
				// a test of an error an inlined helper returned is decided by what the helper returned: not a proposition of the path
				if subj, _, isNil := nilTest(e.Cond); isNil && len(e.Fn.Params) >= 0 {
					trivial := false
					switch rv := e.Resolve(subj).(type) {
					case *ssa.Const:
						trivial = rv.IsNil() && !paths.IsNilConst(subj)
					case *ssa.Call:
						if cal := rv.Call.StaticCallee(); cal != nil && cal.Pkg != nil && rv != subj && ((cal.Pkg.Pkg.Path() == "fmt" && cal.Name() == "Errorf") || (cal.Pkg.Pkg.Path() == "errors" && cal.Name() == "New")) {
							trivial = true
						}
					case *ssa.UnOp:
						if g, isG := rv.X.(*ssa.Global); isG && rv != subj && rv.Op == token.MUL && strings.HasPrefix(g.Name(), "Err") && isErrorType(rv.Type()) {
							trivial = true
						}
					}
					if trivial {
						continue
					}
				}
				pr := proposition(e)
				cp.props = append(cp.props, pr)
				cp.sig = append(cp.sig, "if:"+pr)
			case paths.EvInstr:
				if st, ok := e.Instr.(*ssa.Store); ok {
					if base, f, ok := paths.FieldOf(st.Addr); ok {
						if _, isP := e.Resolve(base).(*ssa.Parameter); isP {
							cp.sets = append(cp.sets, f.Name()+"="+role(e, st.Val))
							cp.sig = append(cp.sig, "set:"+f.Name()+"="+role(e, st.Val))
						}
					}
				}
				if call, ok := e.Instr.(*ssa.Call); ok {
					r := callRole(e, call)
					if strings.HasPrefix(r, "len(") || strings.HasPrefix(r, "be32(") {
						continue
					}
					cp.calls = append(cp.calls, r)
					cp.sig = append(cp.sig, "call:"+r)
				}
			}
		}
		for _, r := range p.Results {
			cp.results = append(cp.results, role(last, r))
		}
		if len(p.Results) == 2 {
			cp.r0, cp.r1 = role(last, p.Results[0]), role(last, p.Results[1])
			cp.r1err = cp.r1 != "nil"
			r1 := cp.r1
			if cp.r1err && !strings.HasPrefix(r1, "global:") && !strings.Contains(r1, "ReadFull") && !strings.Contains(r1, "Discard") {
				r1 = "err"
			}
			cp.sig = append(cp.sig, "ret:"+cp.r0+","+r1)
		}
		out = append(out, cp)
	}
	return out, nil
}

func has(list []string, s string) bool {
	for _, x := range list {
		if x == s {
			return true
		}
	}
	return false
}

func indexOf(list []string, s string) int {
	for i, x := range list {
		if x == s {
			return i
		}
	}
	return -1
}

func runC04(c *core.Ctx) {
	c.MinInstances("C04-NOCONSUME", 2)
	c.MinInstances("C04-PROGRESS", 2)
	c.MinInstances("C04-EXACT", 2)
	c.MinInstances("C04-BLOCKED", 2)
	c.MinInstances("C04-LOWER", 4)
	c.MinInstances("C04-SIBLING", 2)
	c.Trust("a concrete ConnReader honours its documented contract (Peek returns up to n octets without consuming; Discard(n) with n<=Size() succeeds; io.ReadFull returns nil iff the buffer was filled)")
	c.NotDecided("the behaviour of concrete ConnReader implementations")
	pkg := c.Prog.Pkg("codec")
	if pkg == nil {
		c.Broken("C04-EXACT", "codec", "package codec not found")
		return
	}
	// the implementations of the Codec interface
	var iface *types.Interface
	if tn, ok := pkg.Types.Scope().Lookup("Codec").(*types.TypeName); ok {
		iface, _ = tn.Type().Underlying().(*types.Interface)
	}
	if iface == nil {
		c.Broken("C04-EXACT", "codec.Codec", "interface not found")
		return
	}
	sigs := map[string]map[string][]string{} // method -> type -> sorted path signatures
	var impls []string
	for _, name := range pkg.Types.Scope().Names() {
		tn, ok := pkg.Types.Scope().Lookup(name).(*types.TypeName)
		if !ok {
			continue
		}
		named, ok := tn.Type().(*types.Named)
		if !ok || types.IsInterface(named) || !types.Implements(types.NewPointer(named), iface) {
			continue
		}
		impls = append(impls, name)
		for _, mname := range []string{"Decode", "DecodeBlocked"} {
			m := c.Prog.LookupMethod("codec", name, mname)
			key := "codec." + name + "." + mname
			fn := c.Prog.SSAFunc(m)
			if m == nil || fn == nil {
				c.Broken("C04-EXACT", key, "method not found")
				continue
			}
			c.Count("functions", 1)
			ps, err := c04PathsOpt(c, fn, true) // unexported helper functions of the package are inlined
			if err != nil {
				c.Unknown("C04-EXACT", key, c.Prog.Pos(m.Pos()), err.Error())
				continue
			}
			c.Count("paths", len(ps))
			var all []string
			for _, p := range ps {
				// per path: the set of events (the order of independent steps - a copy into the frame before or after the
				// second read - is judged by the per-implementation rules, not by the sibling comparison)
				var items []string
				for _, it := range p.sig {
					// a copy into the local frame on a path that ends in an error has no observable effect
					if p.r1err && strings.HasPrefix(it, "call:copy(") {
						continue
					}
					items = append(items, it)
				}
				sort.Strings(items)
				all = append(all, strings.Join(items, " ; "))
			}
			sort.Strings(all)
			if sigs[mname] == nil {
				sigs[mname] = map[string][]string{}
			}
			sigs[mname][name] = all
			if len(c.Obligations()) < 12 {
				c.Sample(map[string]any{"function": key, "paths": all})
			}
			if mname == "Decode" {
				decodeRules(c, key, c.Prog.Pos(m.Pos()), ps)
			} else {
				blockedRules(c, key, c.Prog.Pos(m.Pos()), ps)
			}
		}
	}
	c.Count("codec_implementations", len(impls))
	for mname, byType := range sigs {
		var names []string
		for n := range byType {
			names = append(names, n)
		}
		sort.Strings(names)
		ok := true
		for _, n := range names[1:] {
			if strings.Join(byType[n], "\n") != strings.Join(byType[names[0]], "\n") {
				ok = false
			}
		}
		c.Decide(ok && len(names) >= 2, "C04-SIBLING", "codec.*."+mname, "", fmt.Sprintf("%d implementations with identical path signatures", len(names)),
			"the sibling implementations of "+mname+" ("+strings.Join(names, ", ")+") do not have identical path signatures")
	}
}

const (
	roleP4   = "p1.Peek(k4)#0"
	roleL    = "be32(p1.Peek(k4)#0@k0)"
	rolePF   = "p1.Peek(be32(p1.Peek(k4)#0@k0))#0"
	roleDisc = "p1.Discard(be32(p1.Peek(k4)#0@k0))"
)

func decodeRules(c *core.Ctx, key, pos string, ps []c04path) {
	var noconsume, progress, exact, lower []string
	frames := 0
	allowedIncomplete := map[string]bool{
		"len(" + roleP4 + ")<k4":       true,
		"p1.Size()<" + roleL:           true,
		"len(" + rolePF + ")<" + roleL: true,
	}
	for _, p := range ps {
		if p.aborted != "" {
			exact = append(exact, "path not analysable: "+p.aborted)
			continue
		}
		consumes := false
		for _, cl := range p.calls {
			if strings.HasPrefix(cl, "p1.Discard(") || strings.HasPrefix(cl, "p1.Read(") || strings.HasPrefix(cl, "ReadFull(") {
				consumes = true
			}
		}
		incomplete := p.r1 == "global:ErrPacketNotComplete"
		if incomplete {
			if consumes {
				noconsume = append(noconsume, "a path returning 'incomplete' consumes input: "+strings.Join(p.calls, ", "))
			}
			if p.r0 != "nil" {
				noconsume = append(noconsume, "'incomplete' is returned together with data")
			}
			if len(p.props) == 0 || !allowedIncomplete[p.props[len(p.props)-1]] {
				lastp := "<unconditional>"
				if len(p.props) > 0 {
					lastp = p.props[len(p.props)-1]
				}
				progress = append(progress, "'incomplete' is returned under `"+lastp+"`, which does not imply that fewer octets are buffered than the frame needs")
			}
		}
		// LOWER: uses of L need L>=4 first
		firstUse := -1
		for i, s := range p.sig {
			if (strings.HasPrefix(s, "call:p1.") || strings.HasPrefix(s, "call:ReadFull(") || strings.HasPrefix(s, "call:copy(")) && strings.Contains(s, roleL) {
				firstUse = i
				break
			}
			if strings.HasPrefix(s, "if:") && strings.Contains(s, roleL) && s != "if:"+roleL+">=k4" && s != "if:"+roleL+"<k4" {
				firstUse = i
				break
			}
		}
		if firstUse >= 0 {
			g := indexOf(p.sig, "if:"+roleL+">=k4")
			if g < 0 || g > firstUse {
				lower = append(lower, "the announced length is used ("+p.sig[firstUse]+") without having been checked to be >= 4")
			}
		}
		if has(p.props, roleL+"<k4") {
			if p.r0 != "nil" || !p.r1err || incomplete || consumes {
				lower = append(lower, "a length prefix < 4 is not refused with an error and without consuming input")
			}
		}
		if p.r0 != "nil" {
			frames++
			need := []string{"if:len(" + roleP4 + ")>=k4", "if:" + roleL + ">=k4", "if:p1.Size()>=" + roleL, "call:p1.Peek(" + roleL + ")",
				"if:len(" + rolePF + ")>=" + roleL, "call:" + roleDisc, "if:" + roleDisc + "#1==nil"}
			lastIdx := -1
			for _, n := range need {
				i := indexOf(p.sig, n)
				if i < 0 {
					exact = append(exact, "the path returning a frame lacks `"+n+"`")
				} else if i < lastIdx {
					exact = append(exact, "`"+n+"` is out of order on the path returning a frame")
				} else {
					lastIdx = i
				}
			}
			cmp1, cmp2 := "if:"+roleDisc+"#0==len("+rolePF+")", "if:"+roleDisc+"#0=="+roleL
			cmp1b, cmp2b := "if:len("+rolePF+")=="+roleDisc+"#0", "if:"+roleL+"=="+roleDisc+"#0"
			if !has(p.sig, cmp1) && !has(p.sig, cmp2) && !has(p.sig, cmp1b) && !has(p.sig, cmp2b) {
				exact = append(exact, "the number of octets discarded is not compared with the frame length")
			}
			n := 0
			for _, cl := range p.calls {
				if strings.HasPrefix(cl, "p1.Discard(") {
					n++
					if cl != roleDisc {
						exact = append(exact, "Discard is called with "+cl+" instead of the announced length")
					}
				}
				if strings.HasPrefix(cl, "p1.Read(") || strings.HasPrefix(cl, "ReadFull(") {
					exact = append(exact, "the non-blocking extractor reads from the connection")
				}
			}
			if n != 1 {
				exact = append(exact, fmt.Sprintf("Discard is called %d times on the path returning a frame", n))
			}
			if p.r0 != rolePF {
				exact = append(exact, "the frame returned is "+p.r0+", expected the Peek(L) view")
			}
			if p.r1err {
				exact = append(exact, "a frame is returned together with an error")
			}
		} else if !p.r1err {
			exact = append(exact, "a path returns neither a frame nor an error")
		}
	}
	if frames != 1 {
		exact = append(exact, fmt.Sprintf("%d paths return a frame (expected exactly one)", frames))
	}
	rep := func(rule string, probs []string, okd string) {
		probs = uniq(probs)
		if len(probs) == 0 {
			c.OK(rule, key, pos, okd)
		} else {
			c.Fail(rule, key, pos, strings.Join(probs, "; "))
		}
	}
	rep("C04-NOCONSUME", noconsume, "no 'incomplete' path consumes")
	rep("C04-PROGRESS", progress, "'incomplete' only when fewer octets are buffered than needed")
	rep("C04-EXACT", exact, "single frame path: Peek(L), len>=L, Discard(L) once, results checked")
	rep("C04-LOWER", lower, "L<4 refused before any use of L")
}

func blockedRules(c *core.Ctx, key, pos string, ps []c04path) {
	const (
		pre   = "make(k4)"
		L     = "be32(make(k4)@k0)"
		frame = "make(be32(make(k4)@k0))"
	)
	rf1 := "ReadFull(p1," + pre + ")"
	rf2 := "ReadFull(p1," + frame + "[k4:])"
	var blocked, lower []string
	frames := 0
	for _, p := range ps {
		if p.aborted != "" {
			blocked = append(blocked, "path not analysable: "+p.aborted)
			continue
		}
		firstUse := -1
		for i, s := range p.sig {
			if (strings.HasPrefix(s, "call:p1.") || strings.HasPrefix(s, "call:ReadFull(") || strings.HasPrefix(s, "call:copy(")) && strings.Contains(s, L) {
				firstUse = i
				break
			}
		}
		// the allocation make(L) is not a call event: it appears inside the ReadFull/copy roles, which is where L is first used
		if firstUse >= 0 {
			g := indexOf(p.sig, "if:"+L+">=k4")
			if g < 0 || g > firstUse {
				lower = append(lower, "the announced length is used ("+p.sig[firstUse]+") without having been checked to be >= 4")
			}
		}
		if has(p.props, L+"<k4") && (p.r0 != "nil" || !p.r1err) {
			lower = append(lower, "a length prefix < 4 is not refused with an error")
		}
		if p.r0 == "nil" {
			if !p.r1err {
				blocked = append(blocked, "a path returns neither a frame nor an error")
			}
			continue
		}
		frames++
		need := []string{"call:" + rf1, "if:" + rf1 + "#1==nil", "if:" + L + ">=k4", "call:" + rf2, "if:" + rf2 + "#1==nil"}
		lastIdx := -1
		for _, n := range need {
			i := indexOf(p.sig, n)
			if i < 0 {
				blocked = append(blocked, "the path returning a frame lacks `"+n+"`")
			} else if i < lastIdx {
				blocked = append(blocked, "`"+n+"` is out of order on the path returning a frame")
			} else {
				lastIdx = i
			}
		}
		if !has(p.sig, "call:copy("+frame+"[:k4],"+pre+")") {
			blocked = append(blocked, "the 4 prefix octets are not copied to frame[:4] (path: "+strings.Join(p.sig, " ; ")+")")
		}
		if p.r0 != frame {
			blocked = append(blocked, "the frame returned is "+p.r0+", expected the buffer of L octets")
		}
		if p.r1err {
			blocked = append(blocked, "a (partial) frame is returned together with an error")
		}
	}
	if frames != 1 {
		blocked = append(blocked, fmt.Sprintf("%d paths return a frame (expected exactly one: a frame may be returned only when both reads succeeded)", frames))
	}
	for rule, probs := range map[string][]string{"C04-BLOCKED": blocked, "C04-LOWER": lower} {
		probs = uniq(probs)
		if len(probs) == 0 {
			c.OK(rule, key, pos, "ok")
		} else {
			c.Fail(rule, key, pos, strings.Join(probs, "; "))
		}
	}
}
