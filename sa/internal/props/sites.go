package props

import (
	"fmt"
	"go/constant"
	"go/token"
	"go/types"
	"sort"
	"strings"

	"golang.org/x/tools/go/callgraph"
	"golang.org/x/tools/go/ssa"

	"verifsa/internal/core"
	"verifsa/internal/load"
	"verifsa/internal/paths"
	"verifsa/internal/prover"
)

// funcKey is a stable name for an SSA function of the module.
func funcKey(fn *ssa.Function) string {
	if fn == nil {
		return "<nil>"
	}
	pk := ""
	if fn.Pkg != nil {
		pk = load.Rel(fn.Pkg.Pkg.Path())
	}
	name := fn.Name()
	if fn.Signature.Recv() != nil {
		if nt := namedOfType(fn.Signature.Recv().Type()); nt != nil {
			name = nt.Obj().Name() + "." + name
		}
	}
	if fn.Parent() != nil {
		return funcKey(fn.Parent()) + "$" + fn.Name()
	}
	return pk + "." + name
}

// reachable returns the module functions reachable from the roots in the VTA call graph.
func reachable(c *core.Ctx, roots []*ssa.Function) map[*ssa.Function]bool {
	cg := c.Prog.CallGraph()
	out := map[*ssa.Function]bool{}
	var stack []*ssa.Function
	for _, r := range roots {
		if r != nil && !out[r] {
			out[r] = true
			stack = append(stack, r)
		}
	}
	for len(stack) > 0 {
		fn := stack[len(stack)-1]
		stack = stack[:len(stack)-1]
		node := cg.Nodes[fn]
		if node == nil {
			continue
		}
		for _, e := range node.Out {
			cal := e.Callee.Func
			if cal == nil || cal.Pkg == nil || !load.InModule(cal.Pkg.Pkg) || out[cal] {
				continue
			}
			out[cal] = true
			stack = append(stack, cal)
		}
		for _, a := range fn.AnonFuncs {
			if !out[a] {
				out[a] = true
				stack = append(stack, a)
			}
		}
	}
	return out
}

var _ = callgraph.Graph{}

type site struct {
	fn          *ssa.Function
	instr       ssa.Instruction
	kind        string
	goals       []siteGoal
	undecidable string // non-empty: cannot be expressed as inequalities
}

type siteGoal struct {
	what string
	l    prover.Lin
}

// availabilityFacts: summaries of module boolean helpers of the form `func (r *Reader) short(n int) bool`:
// result false implies n <= <receiver buffer>.Len(). Derived from the helper's own paths.
func availabilityFacts(c *core.Ctx, p *prover.F) func(call *ssa.Call, result bool) []prover.Fact {
	cache := map[*ssa.Function]int{} // param index guarded, -1 none
	return func(call *ssa.Call, result bool) []prover.Fact {
		callee := call.Call.StaticCallee()
		if callee == nil || callee.Pkg == nil || !load.InModule(callee.Pkg.Pkg) || result {
			return nil
		}
		idx, ok := cache[callee]
		if !ok {
			idx = -1
			ps, err := paths.Enumerate(callee, paths.Config{MaxDepth: 1})
			if err == nil && len(ps) > 0 {
				cand := -2
				for _, pth := range ps {
					if len(pth.Results) != 1 {
						cand = -1
						break
					}
					cv, isC := pth.Results[0].(*ssa.Const)
					if !isC || cv.Value == nil || cv.Value.Kind() != constant.Bool {
						cand = -1
						break
					}
					if constant.BoolVal(cv.Value) {
						continue
					}
					// a path returning false must have established param <= X.Len()
					found := -1
					for _, e := range pth.Events {
						if e.Kind != paths.EvBranch {
							continue
						}
						pr := proposition(e)
						if strings.HasPrefix(pr, "Len(") && strings.Contains(pr, ")>=p") {
							if b, isB := e.Cond.(*ssa.BinOp); isB {
								for k, prm := range callee.Params {
									if b.X == ssa.Value(prm) || b.Y == ssa.Value(prm) {
										found = k
									}
								}
							}
						}
					}
					if found < 0 {
						cand = -1
						break
					}
					if cand == -2 || cand == found {
						cand = found
					} else {
						cand = -1
						break
					}
				}
				if cand >= 0 {
					idx = cand
				}
			}
			cache[callee] = idx
		}
		if idx < 0 || idx >= len(call.Call.Args) {
			return nil
		}
		// n <= avail  (avail is an opaque non-negative "remaining input" atom)
		n := p.LinOf(call.Call.Args[idx])
		return []prover.Fact{{L: prover.Atom("len:remaining-input").Add(n, -1), Why: "availability guard " + callee.Name() + " returned false"}}
	}
}

func enumerateSites(p *prover.F, fn *ssa.Function) []site {
	var out []site
	add := func(ins ssa.Instruction, kind string, goals ...siteGoal) {
		out = append(out, site{fn: fn, instr: ins, kind: kind, goals: goals})
	}
	boundOf := func(x ssa.Value, forSlice bool) (prover.Lin, bool) {
		switch t := x.Type().Underlying().(type) {
		case *types.Pointer:
			if arr, ok := t.Elem().Underlying().(*types.Array); ok {
				return prover.Const(arr.Len()), true
			}
		case *types.Array:
			return prover.Const(t.Len()), true
		case *types.Slice:
			if forSlice {
				if ms, ok := x.(*ssa.MakeSlice); ok {
					return p.LinOf(ms.Cap), true
				}
			}
			return p.LenOf(x), true
		case *types.Basic:
			if t.Info()&types.IsString != 0 {
				return p.LenOf(x), true
			}
		}
		return prover.Lin{}, false
	}
	for _, b := range fn.Blocks {
		for _, ins := range b.Instrs {
			switch x := ins.(type) {
			case *ssa.IndexAddr:
				if bnd, ok := boundOf(x.X, false); ok {
					i := p.LinOf(x.Index)
					add(ins, "index", siteGoal{"index >= 0", i}, siteGoal{"index < len", bnd.Add(i, -1).Add(prover.Const(1), -1)})
				}
			case *ssa.Index:
				if bnd, ok := boundOf(x.X, false); ok {
					i := p.LinOf(x.Index)
					add(ins, "index", siteGoal{"index >= 0", i}, siteGoal{"index < len", bnd.Add(i, -1).Add(prover.Const(1), -1)})
				}
			case *ssa.Lookup:
				if _, isMap := x.X.Type().Underlying().(*types.Map); isMap {
					continue
				}
				if bnd, ok := boundOf(x.X, false); ok {
					i := p.LinOf(x.Index)
					add(ins, "index", siteGoal{"index >= 0", i}, siteGoal{"index < len", bnd.Add(i, -1).Add(prover.Const(1), -1)})
				}
			case *ssa.Slice:
				bnd, ok := boundOf(x.X, true)
				if !ok {
					continue
				}
				lo := prover.Const(0)
				if x.Low != nil {
					lo = p.LinOf(x.Low)
				}
				hi := bnd
				if x.High != nil {
					hi = p.LinOf(x.High)
				} else if _, isSl := x.X.Type().Underlying().(*types.Slice); isSl {
					hi = p.LenOf(x.X)
				}
				var goals []siteGoal
				if x.Low != nil {
					goals = append(goals, siteGoal{"low >= 0", lo})
				}
				goals = append(goals, siteGoal{"low <= high", hi.Add(lo, -1)})
				if x.High != nil {
					goals = append(goals, siteGoal{"high <= cap", bnd.Add(hi, -1)})
				}
				add(ins, "slice", goals...)
			case *ssa.MakeSlice:
				add(ins, "make", siteGoal{"len >= 0", p.LinOf(x.Len)})
			case *ssa.TypeAssert:
				if !x.CommaOk {
					out = append(out, site{fn: fn, instr: ins, kind: "type-assert", undecidable: "unchecked type assertion to " + x.AssertedType.String()})
				}
			case *ssa.Panic:
				out = append(out, site{fn: fn, instr: ins, kind: "panic", undecidable: "explicit panic"})
			case *ssa.BinOp:
				if (x.Op == token.QUO || x.Op == token.REM) && isIntType(x.Type()) {
					if cv, ok := x.Y.(*ssa.Const); ok && cv.Value != nil && constant.Sign(cv.Value) != 0 {
						continue
					}
					d := p.LinOf(x.Y)
					add(ins, "divide", siteGoal{"divisor >= 1", d.Add(prover.Const(1), -1)})
				}
			case *ssa.Call:
				cal := x.Call.StaticCallee()
				if cal == nil || cal.Pkg == nil {
					continue
				}
				if cal.Pkg.Pkg.Path() == "encoding/binary" && cal.Signature.Recv() != nil {
					need := map[string]int64{"Uint16": 2, "Uint32": 4, "Uint64": 8, "PutUint16": 2, "PutUint32": 4, "PutUint64": 8}[cal.Name()]
					if need > 0 && len(x.Call.Args) >= 2 {
						add(ins, "binary."+cal.Name(), siteGoal{fmt.Sprintf("len(arg) >= %d", need), p.LenOf(x.Call.Args[1]).Add(prover.Const(need), -1)})
					}
				}
				if cal.Pkg.Pkg.Path() == "strings" && cal.Name() == "Repeat" {
					add(ins, "strings.Repeat", siteGoal{"count >= 0", p.LinOf(x.Call.Args[1])})
				}
			}
		}
	}
	return out
}

// writerCounterNonNeg: loads of packet.Writer.written (C20-COUNT: the counter equals the number of octets appended).
func writerCounterNonNeg(v ssa.Value) bool {
	u, ok := v.(*ssa.UnOp)
	if !ok || u.Op != token.MUL {
		return false
	}
	_, f, ok := fieldOfAddr(u.X)
	if !ok || f.Name() != "written" || f.Pkg() == nil {
		return false
	}
	return strings.HasSuffix(f.Pkg().Path(), "/packet")
}

func isIntType(t types.Type) bool {
	b, ok := t.Underlying().(*types.Basic)
	return ok && b.Info()&types.IsInteger != 0
}

// checkSites proves every panic-capable site of the functions and reports one obligation per site.
func checkSites(c *core.Ctx, rule string, fns []*ssa.Function) {
	sort.Slice(fns, func(i, j int) bool { return funcKey(fns[i]) < funcKey(fns[j]) })
	for _, fn := range fns {
		if len(fn.Blocks) == 0 {
			continue
		}
		p := prover.New(fn)
		p.CallFacts = availabilityFacts(c, p)
		p.NonNeg = writerCounterNonNeg
		sites := enumerateSites(p, fn)
		c.Count("functions_scanned", 1)
		c.Count("panic_capable_sites", len(sites))
		ord := map[string]int{}
		for _, s := range sites {
			ord[s.kind]++
			key := fmt.Sprintf("%s#%s%d", funcKey(fn), s.kind, ord[s.kind])
			pos := c.Prog.Pos(s.instr.Pos())
			if s.undecidable != "" {
				c.Fail(rule, key, pos, s.undecidable+" in "+funcKey(fn))
				continue
			}
			var failed []string
			var whys []string
			for _, g := range s.goals {
				ok, why := p.Prove(s.instr.Block(), g.l, nil)
				if !ok {
					failed = append(failed, fmt.Sprintf("%s (needs %s >= 0)", g.what, g.l))
				} else {
					whys = append(whys, why)
				}
			}
			if len(failed) == 0 {
				c.OK(rule, key, pos, s.instr.String()+" : "+strings.Join(whys, " | "))
			} else {
				c.Fail(rule, key, pos, fmt.Sprintf("%s in %s may panic: cannot establish %s from the dominating guards", s.instr.String(), funcKey(fn), strings.Join(failed, " and ")))
			}
		}
	}
}
