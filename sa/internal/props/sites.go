package props

import (
	"fmt"
	"go/constant"
	"go/token"
	"go/types"
	"sort"
	"strings"

	"golang.org/x/tools/go/callgraph"
	"golang.org/x/tools/go/ssa"

	"verifsa/internal/core"
	"verifsa/internal/load"
	"verifsa/internal/paths"
	"verifsa/internal/prover"
)

// funcKey is a stable name for an SSA function of the module.
func funcKey(fn *ssa.Function) string {
	if fn == nil {
		return "<nil>"
	}
	pk := ""
	if fn.Pkg != nil {
		pk = load.Rel(fn.Pkg.Pkg.Path())
	}
	name := canonName(fn)
	if fn.Signature.Recv() != nil {
		if nt := namedOfType(fn.Signature.Recv().Type()); nt != nil {
			name = nt.Obj().Name() + "." + name
		}
	}
	if fn.Parent() != nil {
		return funcKey(fn.Parent()) + "$" + fn.Name()
	}
	return pk + "." + name
}

// canonName: the name rules print for a function - its own, or the canonical name of the unexported helper it stands in
// for after a rename (load/alias.go), so that keys and path signatures do not depend on the spelling of private names.
func canonName(fn *ssa.Function) string {
	if fn == nil {
		return ""
	}
	if obj, ok := fn.Object().(*types.Func); ok {
		return load.CanonName(obj)
	}
	return fn.Name()
}

// reachable returns the module functions reachable from the roots in the VTA call graph.
func reachable(c *core.Ctx, roots []*ssa.Function) map[*ssa.Function]bool {
	cg := c.Prog.CallGraph()
	out := map[*ssa.Function]bool{}
	var stack []*ssa.Function
	for _, r := range roots {
		if r != nil && !out[r] {
			out[r] = true
			stack = append(stack, r)
		}
	}
	for len(stack) > 0 {
		fn := stack[len(stack)-1]
		stack = stack[:len(stack)-1]
		node := cg.Nodes[fn]
		if node == nil {
			continue
		}
		for _, e := range node.Out {
			cal := e.Callee.Func
			if cal == nil || cal.Pkg == nil || !load.InModule(cal.Pkg.Pkg) || out[cal] {
				continue
			}
			out[cal] = true
			stack = append(stack, cal)
		}
		for _, a := range fn.AnonFuncs {
			if !out[a] {
				out[a] = true
				stack = append(stack, a)
			}
		}
	}
	return out
}

var _ = callgraph.Graph{}

type site struct {
	fn          *ssa.Function
	instr       ssa.Instruction
	kind        string
	goals       []siteGoal
	undecidable string // non-empty: cannot be expressed as inequalities
}

type siteGoal struct {
	what string
	l    prover.Lin
}

// availabilityFacts: summaries of module boolean helpers of the form `func (r *Reader) short(n int) bool`:
// result false implies n <= <receiver buffer>.Len(). Derived from the helper's own paths.
func availabilityFacts(c *core.Ctx, p *prover.F) func(call *ssa.Call, result bool) []prover.Fact {
	cache := map[*ssa.Function]int{} // param index guarded, -1 none
	return func(call *ssa.Call, result bool) []prover.Fact {
		callee := call.Call.StaticCallee()
		if callee == nil || callee.Pkg == nil || !load.InModule(callee.Pkg.Pkg) || result {
			return nil
		}
		idx, ok := cache[callee]
		if !ok {
			idx = -1
			ps, err := paths.Enumerate(callee, paths.Config{MaxDepth: 1})
			if err == nil && len(ps) > 0 {
				cand := -2
				for _, pth := range ps {
					if len(pth.Results) != 1 {
						cand = -1
						break
					}
					cv, isC := pth.Results[0].(*ssa.Const)
					if !isC || cv.Value == nil || cv.Value.Kind() != constant.Bool {
						cand = -1
						break
					}
					if constant.BoolVal(cv.Value) {
						continue
					}
					// a path returning false must have established param <= X.Len()
					found := -1
					for _, e := range pth.Events {
						if e.Kind != paths.EvBranch {
							continue
						}
						pr := proposition(e)
						if strings.HasPrefix(pr, "Len(") && strings.Contains(pr, ")>=p") {
							if b, isB := e.Cond.(*ssa.BinOp); isB {
								for k, prm := range callee.Params {
									if b.X == ssa.Value(prm) || b.Y == ssa.Value(prm) {
										found = k
									}
								}
							}
						}
					}
					if found < 0 {
						cand = -1
						break
					}
					if cand == -2 || cand == found {
						cand = found
					} else {
						cand = -1
						break
					}
				}
				if cand >= 0 {
					idx = cand
				}
			}
			cache[callee] = idx
		}
		if idx < 0 || idx >= len(call.Call.Args) {
			return nil
		}
		// n <= avail  (avail is an opaque non-negative "remaining input" atom)
		n := p.LinOf(call.Call.Args[idx])
		return []prover.Fact{{L: prover.Atom("len:remaining-input").Add(n, -1), Why: "availability guard " + callee.Name() + " returned false"}}
	}
}

func enumerateSites(p *prover.F, fn *ssa.Function) []site {
	var out []site
	add := func(ins ssa.Instruction, kind string, goals ...siteGoal) {
		out = append(out, site{fn: fn, instr: ins, kind: kind, goals: goals})
	}
	boundOf := func(x ssa.Value, forSlice bool) (prover.Lin, bool) {
		switch t := x.Type().Underlying().(type) {
		case *types.Pointer:
			if arr, ok := t.Elem().Underlying().(*types.Array); ok {
				return prover.Const(arr.Len()), true
			}
		case *types.Array:
			return prover.Const(t.Len()), true
		case *types.Slice:
			if forSlice {
				if ms, ok := x.(*ssa.MakeSlice); ok {
					return p.LinOf(ms.Cap), true
				}
			}
			return p.LenOf(x), true
		case *types.Basic:
			if t.Info()&types.IsString != 0 {
				return p.LenOf(x), true
			}
		}
		return prover.Lin{}, false
	}
	for _, b := range fn.Blocks {
		for _, ins := range b.Instrs {
			switch x := ins.(type) {
			case *ssa.IndexAddr:
				if bnd, ok := boundOf(x.X, false); ok {
					i := p.LinOf(x.Index)
					add(ins, "index", siteGoal{"index >= 0", i}, siteGoal{"index < len", bnd.Add(i, -1).Add(prover.Const(1), -1)})
				}
			case *ssa.Index:
				if bnd, ok := boundOf(x.X, false); ok {
					i := p.LinOf(x.Index)
					add(ins, "index", siteGoal{"index >= 0", i}, siteGoal{"index < len", bnd.Add(i, -1).Add(prover.Const(1), -1)})
				}
			case *ssa.Lookup:
				if _, isMap := x.X.Type().Underlying().(*types.Map); isMap {
					continue
				}
				if bnd, ok := boundOf(x.X, false); ok {
					i := p.LinOf(x.Index)
					add(ins, "index", siteGoal{"index >= 0", i}, siteGoal{"index < len", bnd.Add(i, -1).Add(prover.Const(1), -1)})
				}
			case *ssa.Slice:
				bnd, ok := boundOf(x.X, true)
				if !ok {
					continue
				}
				lo := prover.Const(0)
				if x.Low != nil {
					lo = p.LinOf(x.Low)
				}
				hi := bnd
				if x.High != nil {
					hi = p.LinOf(x.High)
				} else if _, isSl := x.X.Type().Underlying().(*types.Slice); isSl {
					hi = p.LenOf(x.X)
				}
				var goals []siteGoal
				if x.Low != nil {
					goals = append(goals, siteGoal{"low >= 0", lo})
				}
				goals = append(goals, siteGoal{"low <= high", hi.Add(lo, -1)})
				if x.High != nil {
					label := "high <= cap"
					if _, isSl := x.X.Type().Underlying().(*types.Slice); isSl {
						if _, isMk := x.X.(*ssa.MakeSlice); !isMk {
							// beyond the length of a slice that was handed in lies memory that is not part of the value: the
							// re-slice panics past the capacity and reads stale octets before it
							label = "high <= len (a re-slice beyond the length panics or takes in whatever lies behind the value)"
						}
					}
					goals = append(goals, siteGoal{label, bnd.Add(hi, -1)})
				}
				add(ins, "slice", goals...)
			case *ssa.MakeSlice:
				add(ins, "make", siteGoal{"len >= 0", p.LinOf(x.Len)})
			case *ssa.TypeAssert:
				if !x.CommaOk {
					out = append(out, site{fn: fn, instr: ins, kind: "type-assert", undecidable: "unchecked type assertion to " + x.AssertedType.String()})
				}
			case *ssa.Panic:
				out = append(out, site{fn: fn, instr: ins, kind: "panic", undecidable: "explicit panic"})
			case *ssa.BinOp:
				if (x.Op == token.QUO || x.Op == token.REM) && isIntType(x.Type()) {
					if cv, ok := x.Y.(*ssa.Const); ok && cv.Value != nil && constant.Sign(cv.Value) != 0 {
						continue
					}
					d := p.LinOf(x.Y)
					add(ins, "divide", siteGoal{"divisor >= 1", d.Add(prover.Const(1), -1)})
				}
			case *ssa.Call:
				cal := x.Call.StaticCallee()
				if cal == nil || cal.Pkg == nil {
					continue
				}
				if cal.Pkg.Pkg.Path() == "encoding/binary" && cal.Signature.Recv() != nil {
					need := map[string]int64{"Uint16": 2, "Uint32": 4, "Uint64": 8, "PutUint16": 2, "PutUint32": 4, "PutUint64": 8}[cal.Name()]
					if need > 0 && len(x.Call.Args) >= 2 {
						add(ins, "binary."+cal.Name(), siteGoal{fmt.Sprintf("len(arg) >= %d", need), p.LenOf(x.Call.Args[1]).Add(prover.Const(need), -1)})
					}
				}
				if cal.Pkg.Pkg.Path() == "strings" && cal.Name() == "Repeat" {
					add(ins, "strings.Repeat", siteGoal{"count >= 0", p.LinOf(x.Call.Args[1])})
				}
			}
		}
	}
	return out
}

// writerCounterNonNeg: loads of packet.Writer.written (C20-COUNT: the counter equals the number of octets appended).
func writerCounterNonNeg(v ssa.Value) bool {
	u, ok := v.(*ssa.UnOp)
	if !ok || u.Op != token.MUL {
		return false
	}
	_, f, ok := fieldOfAddr(u.X)
	if !ok || f.Name() != "written" || f.Pkg() == nil {
		return false
	}
	return strings.HasSuffix(f.Pkg().Path(), "/packet")
}

func isIntType(t types.Type) bool {
	b, ok := t.Underlying().(*types.Basic)
	return ok && b.Info()&types.IsInteger != 0
}

// checkSites proves every panic-capable site of the functions and reports one obligation per site.
func checkSites(c *core.Ctx, rule string, fns []*ssa.Function) {
	sort.Slice(fns, func(i, j int) bool { return funcKey(fns[i]) < funcKey(fns[j]) })
	for _, fn := range fns {
		if len(fn.Blocks) == 0 {
			continue
		}
		p := prover.New(fn)
		p.CallFacts = availabilityFacts(c, p)
		p.NonNeg = writerCounterNonNeg
		p.ResultFacts = helperResultFacts(c)
		sites := enumerateSites(p, fn)
		// an unexported helper whose integer parameter receives a constant at every one of its (static) call sites: the
		// parameter lies between the smallest and the largest of those constants
		paramFacts := constantParamFacts(c, fn, p)
		c.Count("functions_scanned", 1)
		c.Count("panic_capable_sites", len(sites))
		ord := map[string]int{}
		for _, s := range sites {
			ord[s.kind]++
			key := fmt.Sprintf("%s#%s%d", funcKey(fn), s.kind, ord[s.kind])
			pos := c.Prog.Pos(s.instr.Pos())
			if s.undecidable != "" {
				c.Fail(rule, key, pos, s.undecidable+" in "+funcKey(fn))
				continue
			}
			var failed []string
			var whys []string
			for _, g := range s.goals {
				ok, why := p.Prove(s.instr.Block(), g.l, paramFacts)
				if !ok {
					failed = append(failed, fmt.Sprintf("%s (needs %s >= 0)", g.what, g.l))
				} else {
					whys = append(whys, why)
				}
			}
			if len(failed) > 0 {
				// an unexported helper may rely on what every one of its callers has established: the undischarged goals are
				// re-stated over the actual arguments and proved at each call site (caller-side precondition)
				all := true
				for _, g := range s.goals {
					if ok, _ := p.Prove(s.instr.Block(), g.l, paramFacts); ok {
						continue
					}
					if ok, why := provedAtCallers(c, fn, p, g.l, 0); ok {
						whys = append(whys, why)
					} else {
						all = false
					}
				}
				if all {
					failed = nil
				}
			}
			if len(failed) > 0 {
				// a header peek written with a loop, a closure or a re-sliced cursor: every run is evaluated with concrete
				// control (the offsets are constants on each run), and every access must lie within the buffer length that
				// run has established
				if root := peekRootOf(fn); root != nil {
					if outs, whyNot := peekEvaluate(root, c.Prog.Pos); whyNot == "" {
						clean := len(outs) > 0
						for _, o := range outs {
							if len(o.unsafe) > 0 {
								clean = false
							}
						}
						if clean {
							failed = nil
							whys = append(whys, fmt.Sprintf("all %d runs of %s evaluated with concrete control: every access within the length established", len(outs), root.Name()))
						}
					}
				}
			}
			if len(failed) == 0 {
				c.OK(rule, key, pos, s.instr.String()+" : "+strings.Join(whys, " | "))
			} else {
				c.Fail(rule, key, pos, fmt.Sprintf("%s in %s may panic: cannot establish %s from the dominating guards", s.instr.String(), funcKey(fn), strings.Join(failed, " and ")))
			}
		}
	}
}

// provedAtCallers: goal (a linear form over the parameters of the unexported function fn and the lengths of its slice
// parameters) holds at every call site of fn, re-stated over the actual arguments.
func provedAtCallers(c *core.Ctx, fn *ssa.Function, p *prover.F, goal prover.Lin, depth int) (bool, string) {
	if depth > 2 || fn.Object() == nil || fn.Object().Exported() || fn.Parent() != nil {
		return false, ""
	}
	idx := map[*ssa.Parameter]int{}
	for i, prm := range fn.Params {
		idx[prm] = i
	}
	for a := range goal.T {
		prm, ok := p.AtomValue(a).(*ssa.Parameter)
		if !ok {
			return false, ""
		}
		if _, ok := idx[prm]; !ok {
			return false, ""
		}
	}
	node := c.Prog.CallGraph().Nodes[fn]
	if node == nil || len(node.In) == 0 {
		return false, ""
	}
	n := 0
	for _, e := range node.In {
		call, ok := e.Site.(*ssa.Call)
		if !ok || call.Call.StaticCallee() != fn || e.Caller.Func == nil || len(e.Caller.Func.Blocks) == 0 {
			return false, "" // dynamic or deferred/go call: not followed
		}
		cp := prover.New(e.Caller.Func)
		cp.CallFacts = availabilityFacts(c, cp)
		cp.NonNeg = writerCounterNonNeg
		g := prover.Const(goal.C)
		for a, k := range goal.T {
			prm := p.AtomValue(a).(*ssa.Parameter)
			arg := call.Call.Args[idx[prm]]
			if strings.HasPrefix(a, "len:") {
				g = g.Add(cp.LenOf(arg), k)
			} else {
				g = g.Add(cp.LinOf(arg), k)
			}
		}
		if ok, _ := cp.Prove(call.Block(), g, nil); !ok {
			if ok2, _ := provedAtCallers(c, e.Caller.Func, cp, g, depth+1); !ok2 {
				return false, ""
			}
		}
		n++
	}
	return true, fmt.Sprintf("established by all %d callers of %s before the call", n, fn.Name())
}

// helperResultFacts summarises unexported module helpers that return an int offset into one of their string/slice
// parameters: (a) result >= -1 at every return, (b) result >= 0 implies result <= len(param_i). Both are proved inside
// the callee (with the library contracts of strings.Index etc.) before they are offered to the caller's proof.
func helperResultFacts(c *core.Ctx) func(call *ssa.Call, res prover.Lin) ([]prover.Fact, []prover.CondFact) {
	type summary struct {
		geMinus1 bool
		leLen    []int // parameter indices i with: result >= 0 => result <= len(param_i)
	}
	cache := map[*ssa.Function]*summary{}
	summarise := func(fn *ssa.Function) *summary {
		if s, ok := cache[fn]; ok {
			return s
		}
		s := &summary{}
		cache[fn] = s
		if fn.Object() == nil || fn.Object().Exported() || len(fn.Blocks) == 0 || fn.Signature.Results().Len() != 1 || !isIntType(fn.Signature.Results().At(0).Type()) {
			return s
		}
		p := prover.New(fn)
		var rets []*ssa.Return
		for _, b := range fn.Blocks {
			if r, ok := b.Instrs[len(b.Instrs)-1].(*ssa.Return); ok {
				rets = append(rets, r)
			}
		}
		if len(rets) == 0 {
			return s
		}
		s.geMinus1 = true
		for _, r := range rets {
			if ok, _ := p.Prove(r.Block(), p.LinOf(r.Results[0]).Add(prover.Const(1), 1), nil); !ok {
				s.geMinus1 = false
			}
		}
		for i, prm := range fn.Params {
			switch prm.Type().Underlying().(type) {
			case *types.Slice:
			case *types.Basic:
				if b := prm.Type().Underlying().(*types.Basic); b.Info()&types.IsString == 0 {
					continue
				}
			default:
				continue
			}
			all := true
			for _, r := range rets {
				rv := p.LinOf(r.Results[0])
				if rv.IsConst() && rv.C < 0 {
					continue
				}
				if ok, _ := p.Prove(r.Block(), p.LenOf(prm).Add(rv, -1), nil); !ok {
					all = false
				}
			}
			if all {
				s.leLen = append(s.leLen, i)
			}
		}
		return s
	}
	return func(call *ssa.Call, res prover.Lin) ([]prover.Fact, []prover.CondFact) {
		callee := call.Call.StaticCallee()
		if callee == nil || callee.Pkg == nil || !load.InModule(callee.Pkg.Pkg) {
			return nil, nil
		}
		s := summarise(callee)
		var always []prover.Fact
		var when []prover.CondFact
		if s.geMinus1 {
			always = append(always, prover.Fact{L: res.Add(prover.Const(1), 1), Why: callee.Name() + " returns >= -1 (proved in the callee)"})
		}
		if len(s.leLen) > 0 {
			cp := prover.New(call.Parent())
			for _, i := range s.leLen {
				if i < len(call.Call.Args) {
					when = append(when, prover.CondFact{Guard: res, F: prover.Fact{L: cp.LenOf(call.Call.Args[i]).Add(res, -1), Why: callee.Name() + ": a non-negative result is an offset within argument " + fmt.Sprint(i) + " (proved in the callee)"}})
				}
			}
		}
		return always, when
	}
}

// peekRootOf: fn is a PeekHeader (func(buf []byte) (Header, error)) of the module, or a closure made inside one.
func peekRootOf(fn *ssa.Function) *ssa.Function {
	root := fn
	for root.Parent() != nil {
		root = root.Parent()
	}
	if root.Name() != "PeekHeader" || root.Pkg == nil || !load.InModule(root.Pkg.Pkg) || len(root.Params) != 1 || root.Signature.Results().Len() != 2 {
		return nil
	}
	return root
}

// constantParamFacts: lo <= p <= hi for every integer parameter p of the unexported function fn that is given a constant
// at each of its call sites (all of them static calls inside the module).
func constantParamFacts(c *core.Ctx, fn *ssa.Function, p *prover.F) []prover.Fact {
	if fn.Object() == nil || fn.Object().Exported() || fn.Parent() != nil {
		return nil
	}
	node := c.Prog.CallGraph().Nodes[fn]
	if node == nil || len(node.In) == 0 {
		return nil
	}
	var out []prover.Fact
	for i, prm := range fn.Params {
		if !isIntType(prm.Type()) {
			continue
		}
		lo, hi, ok := int64(0), int64(0), true
		for n, e := range node.In {
			call, isCall := e.Site.(*ssa.Call)
			if !isCall || call.Call.StaticCallee() != fn || i >= len(call.Call.Args) {
				ok = false
				break
			}
			k, isK := constInt(call.Call.Args[i])
			if !isK {
				ok = false
				break
			}
			if n == 0 || k < lo {
				lo = k
			}
			if n == 0 || k > hi {
				hi = k
			}
		}
		if !ok {
			continue
		}
		pl := p.LinOf(prm)
		out = append(out, prover.Fact{L: pl.Add(prover.Const(lo), -1), Why: fmt.Sprintf("every call of %s passes a constant >= %d for %s", fn.Name(), lo, prm.Name())},
			prover.Fact{L: prover.Const(hi).Add(pl, -1), Why: fmt.Sprintf("every call of %s passes a constant <= %d for %s", fn.Name(), hi, prm.Name())})
	}
	return out
}
