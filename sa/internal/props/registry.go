// Package props holds the per-property rule sets.
package props

import (
	"sort"

	"verifsa/internal/core"
)

var registry = map[string]core.PropertyDef{}

func register(d core.PropertyDef) { registry[d.ID] = d }

func Get(id string) (core.PropertyDef, bool) { d, ok := registry[id]; return d, ok }

func IDs() []string {
	ids := make([]string, 0, len(registry))
	for id := range registry {
		ids = append(ids, id)
	}
	sort.Strings(ids)
	return ids
}

// importRules evaluates the rule set of property `from` in a fork and re-emits, under rule name `as`, every obligation
// selected by keep. Obligations that are recorded known findings of the source property are not imported (they are
// reported by their own check). Used where one property's argument rests on facts another property decides.
func importRules(c *core.Ctx, from, as string, keep func(o core.Obligation) bool) int {
	def, ok := registry[from]
	if !ok {
		c.Broken(as, "import:"+from, "rule set not registered")
		return 0
	}
	return importRulesFn(c, from, as, def.Run, keep)
}

// importRulesFn is importRules with an explicit rule function (a subset of the source property's rule set).
func importRulesFn(c *core.Ctx, from, as string, run func(*core.Ctx), keep func(o core.Obligation) bool) int {
	known := core.KnownIDs(c.Root, from)
	sub := c.Fork()
	run(sub)
	n := 0
	for _, o := range sub.Obligations() {
		if keep != nil && !keep(o) {
			continue
		}
		if known[o.ID()] {
			continue
		}
		o.Key = o.Rule + ":" + o.Key
		o.Rule = as
		c.Emit(o)
		n++
	}
	c.Count("imported_from_"+from, n)
	return n
}
