// Package props holds the per-property rule sets.
package props

import (
	"sort"

	"verifsa/internal/core"
)

var registry = map[string]core.PropertyDef{}

func register(d core.PropertyDef) { registry[d.ID] = d }

func Get(id string) (core.PropertyDef, bool) { d, ok := registry[id]; return d, ok }

func IDs() []string {
	ids := make([]string, 0, len(registry))
	for id := range registry {
		ids = append(ids, id)
	}
	sort.Strings(ids)
	return ids
}
