// Package spec is engine E2: the wire layouts of the five protocols as transcribed by hand from
// the specification documents (doc/*.pdf of the repository and the published texts), keyed by
// protocol package and numeric command id. The tables are independent of the library's code;
// see /verif/DESIGN.md Appendix A and /verif/spec-src/README.md for provenance.
package spec

import (
	"fmt"
	"strings"
)

// Field kinds:
//
//	I n  unsigned big-endian integer of n octets
//	T n  fixed n-octet text, left aligned, NUL padded
//	B n  fixed n-octet binary (every octet significant)
//	C n  C-octet string, NUL terminated, at most n octets including the NUL
//	V    variable octets, length given by field Ref
//	R    group repeated Ref times
//	L    optional parameters (TLV) to the end of the PDU
type Field struct {
	Kind byte
	N    int
	Name string
	Ref  string
	Body []Field
}

func (f Field) String() string {
	switch f.Kind {
	case 'V':
		return fmt.Sprintf("V(%s) %s", f.Ref, f.Name)
	case 'R':
		var b []string
		for _, x := range f.Body {
			b = append(b, x.String())
		}
		return fmt.Sprintf("R(%s){%s}", f.Ref, strings.Join(b, ", "))
	case 'L':
		return "TLV*"
	}
	return fmt.Sprintf("%c%d %s", f.Kind, f.N, f.Name)
}

type PDU struct {
	Proto  string   // package path relative to the module, e.g. "cmpp/cmpp20"
	IDs    []uint32 // command ids sharing this layout
	Name   string
	Fields []Field // header included
	Source string  // provenance: "verified" (read from the PDF text layer) or "recalled"
}

// parse reads the compact notation used below.
func parse(s string) []Field {
	var out []Field
	s = strings.TrimSpace(s)
	for len(s) > 0 {
		s = strings.TrimLeft(s, ", ")
		if s == "" {
			break
		}
		switch {
		case strings.HasPrefix(s, "TLV*"):
			out = append(out, Field{Kind: 'L', Name: "TLV"})
			s = s[4:]
		case strings.HasPrefix(s, "R("):
			end := strings.Index(s, ")")
			ref := s[2:end]
			open := strings.Index(s, "{")
			cl := strings.Index(s, "}")
			out = append(out, Field{Kind: 'R', Ref: ref, Name: ref, Body: parse(s[open+1 : cl])})
			s = s[cl+1:]
		case strings.HasPrefix(s, "V("):
			end := strings.Index(s, ")")
			ref := s[2:end]
			rest := strings.TrimSpace(s[end+1:])
			name, tail := splitName(rest)
			out = append(out, Field{Kind: 'V', Ref: ref, Name: name})
			s = tail
		default:
			kind := s[0]
			i := 1
			n := 0
			for i < len(s) && s[i] >= '0' && s[i] <= '9' {
				n = n*10 + int(s[i]-'0')
				i++
			}
			if !strings.ContainsRune("ITBC", rune(kind)) || n == 0 {
				panic("spec: cannot parse " + s)
			}
			name, tail := splitName(strings.TrimSpace(s[i:]))
			out = append(out, Field{Kind: kind, N: n, Name: name})
			s = tail
		}
	}
	return out
}

func splitName(s string) (string, string) {
	i := strings.IndexAny(s, ",")
	if i < 0 {
		return strings.TrimSpace(s), ""
	}
	return strings.TrimSpace(s[:i]), s[i+1:]
}

const (
	hdrCMPP = "I4 Total_Length, I4 Command_Id, I4 Sequence_Id"
	hdrSMGP = "I4 PacketLength, I4 RequestID, I4 SequenceID"
	hdrSMPP = "I4 command_length, I4 command_id, I4 command_status, I4 sequence_number"
	hdrSGIP = "I4 Message_Length, I4 Command_Id, I4 Sequence_Number_1, I4 Sequence_Number_2, I4 Sequence_Number_3"
)

func mk(proto, name, src, hdr, body string, ids ...uint32) PDU {
	s := hdr
	if body != "" {
		s += ", " + body
	}
	return PDU{Proto: proto, IDs: ids, Name: name, Fields: parse(s), Source: src}
}

const r = 0x80000000

// All is the complete oracle.
var All = build()

func build() []PDU {
	var t []PDU
	// ---- SMPP 3.4 (verified against doc/ text layer) ----
	smpp := func(name, body string, ids ...uint32) {
		t = append(t, mk("smpp/smpp34", name, "verified", hdrSMPP, body, ids...))
	}
	smpp("bind_*", "C16 system_id, C9 password, C13 system_type, I1 interface_version, I1 addr_ton, I1 addr_npi, C41 address_range", 0x1, 0x2, 0x9)
	smpp("bind_*_resp", "C16 system_id, TLV*", r|0x1, r|0x2, r|0x9)
	sm := "C6 service_type, I1 source_addr_ton, I1 source_addr_npi, C21 source_addr, I1 dest_addr_ton, I1 dest_addr_npi, C21 destination_addr, " +
		"I1 esm_class, I1 protocol_id, I1 priority_flag, C17 schedule_delivery_time, C17 validity_period, I1 registered_delivery, " +
		"I1 replace_if_present_flag, I1 data_coding, I1 sm_default_msg_id, I1 sm_length, V(sm_length) short_message, TLV*"
	smpp("submit_sm", sm, 0x4)
	smpp("deliver_sm", sm, 0x5)
	smpp("submit_sm_resp", "C65 message_id", r|0x4)
	smpp("deliver_sm_resp", "C1 message_id", r|0x5)
	smpp("enquire_link", "", 0x15)
	smpp("enquire_link_resp", "", r|0x15)
	smpp("unbind", "", 0x6)
	smpp("unbind_resp", "", r|0x6)
	smpp("generic_nack", "", r|0x0)

	// ---- CMPP 2.0 (field names / sizes verified) ----
	c2 := func(name, body string, ids ...uint32) {
		t = append(t, mk("cmpp/cmpp20", name, "verified", hdrCMPP, body, ids...))
	}
	c2("CONNECT", "T6 Source_Addr, B16 AuthenticatorSource, I1 Version, I4 Timestamp", 0x1)
	c2("CONNECT_RESP", "I1 Status, B16 AuthenticatorISMG, I1 Version", r|0x1)
	c2("TERMINATE", "", 0x2)
	c2("TERMINATE_RESP", "", r|0x2)
	c2("SUBMIT", "I8 Msg_Id, I1 Pk_total, I1 Pk_number, I1 Registered_Delivery, I1 Msg_level, T10 Service_Id, I1 Fee_UserType, T21 Fee_terminal_Id, "+
		"I1 TP_pId, I1 TP_udhi, I1 Msg_Fmt, T6 Msg_src, T2 FeeType, T6 FeeCode, T17 ValId_Time, T17 At_Time, T21 Src_Id, I1 DestUsr_tl, "+
		"R(DestUsr_tl){T21 Dest_terminal_Id}, I1 Msg_Length, V(Msg_Length) Msg_Content, T8 Reserve", 0x4)
	c2("SUBMIT_RESP", "I8 Msg_Id, I1 Result", r|0x4)
	c2("DELIVER", "I8 Msg_Id, T21 Dest_Id, T10 Service_Id, I1 TP_pid, I1 TP_udhi, I1 Msg_Fmt, T21 Src_terminal_Id, I1 Registered_Delivery, "+
		"I1 Msg_Length, V(Msg_Length) Msg_Content, T8 Reserved", 0x5)
	c2("DELIVER_RESP", "I8 Msg_Id, I1 Result", r|0x5)
	c2("QUERY", "T8 Time, I1 Query_Type, T10 Query_Code, T8 Reserve", 0x6)
	c2("QUERY_RESP", "T8 Time, I1 Query_Type, T10 Query_Code, I4 MT_TLMsg, I4 MT_Tlusr, I4 MT_Scs, I4 MT_WT, I4 MT_FL, I4 MO_Scs, I4 MO_WT, I4 MO_FL", r|0x6)
	c2("ACTIVE_TEST", "", 0x8)
	c2("ACTIVE_TEST_RESP", "I1 Reserved", r|0x8)

	// ---- CMPP 3.0 (recalled; PDF is CID-glyph only) ----
	c3 := func(name, body string, ids ...uint32) {
		t = append(t, mk("cmpp/cmpp30", name, "recalled", hdrCMPP, body, ids...))
	}
	c3("CONNECT", "T6 Source_Addr, B16 AuthenticatorSource, I1 Version, I4 Timestamp", 0x1)
	c3("CONNECT_RESP", "I4 Status, B16 AuthenticatorISMG, I1 Version", r|0x1)
	c3("TERMINATE", "", 0x2)
	c3("TERMINATE_RESP", "", r|0x2)
	c3("SUBMIT", "I8 Msg_Id, I1 Pk_total, I1 Pk_number, I1 Registered_Delivery, I1 Msg_level, T10 Service_Id, I1 Fee_UserType, T32 Fee_terminal_Id, "+
		"I1 Fee_terminal_type, I1 TP_pId, I1 TP_udhi, I1 Msg_Fmt, T6 Msg_src, T2 FeeType, T6 FeeCode, T17 ValId_Time, T17 At_Time, T21 Src_Id, I1 DestUsr_tl, "+
		"R(DestUsr_tl){T32 Dest_terminal_Id}, I1 Dest_terminal_type, I1 Msg_Length, V(Msg_Length) Msg_Content, T20 LinkID", 0x4)
	c3("SUBMIT_RESP", "I8 Msg_Id, I4 Result", r|0x4)
	c3("DELIVER", "I8 Msg_Id, T21 Dest_Id, T10 Service_Id, I1 TP_pid, I1 TP_udhi, I1 Msg_Fmt, T32 Src_terminal_Id, I1 Src_terminal_type, I1 Registered_Delivery, "+
		"I1 Msg_Length, V(Msg_Length) Msg_Content, T20 LinkID", 0x5)
	c3("DELIVER_RESP", "I8 Msg_Id, I4 Result", r|0x5)
	c3("QUERY", "T8 Time, I1 Query_Type, T10 Query_Code, T8 Reserve", 0x6)
	c3("QUERY_RESP", "T8 Time, I1 Query_Type, T10 Query_Code, I4 MT_TLMsg, I4 MT_Tlusr, I4 MT_Scs, I4 MT_WT, I4 MT_FL, I4 MO_Scs, I4 MO_WT, I4 MO_FL", r|0x6)
	c3("CANCEL", "I8 Msg_Id", 0x7)
	c3("CANCEL_RESP", "I4 Success_Id", r|0x7)
	c3("ACTIVE_TEST", "", 0x8)
	c3("ACTIVE_TEST_RESP", "I1 Reserved", r|0x8)

	// ---- SGIP 1.2 (recalled) ----
	sg := func(name, body string, ids ...uint32) {
		t = append(t, mk("sgip/sgip12", name, "recalled", hdrSGIP, body, ids...))
	}
	sg("BIND", "I1 Login_Type, T16 Login_Name, T16 Login_Password, T8 Reserve", 0x1)
	sg("BIND_RESP", "I1 Result, T8 Reserve", r|0x1)
	sg("UNBIND", "", 0x2)
	sg("UNBIND_RESP", "", r|0x2)
	sg("SUBMIT", "T21 SPNumber, T21 ChargeNumber, I1 UserCount, R(UserCount){T21 UserNumber}, T5 CorpId, T10 ServiceType, I1 FeeType, T6 FeeValue, T6 GivenValue, "+
		"I1 AgentFlag, I1 MorelatetoMTFlag, I1 Priority, T16 ExpireTime, T16 ScheduleTime, I1 ReportFlag, I1 TP_pid, I1 TP_udhi, I1 MessageCoding, I1 MessageType, "+
		"I4 MessageLength, V(MessageLength) MessageContent, T8 Reserve", 0x3)
	sg("SUBMIT_RESP", "I1 Result, T8 Reserve", r|0x3)
	sg("DELIVER", "T21 UserNumber, T21 SPNumber, I1 TP_pid, I1 TP_udhi, I1 MessageCoding, I4 MessageLength, V(MessageLength) MessageContent, T8 Reserve", 0x4)
	sg("DELIVER_RESP", "I1 Result, T8 Reserve", r|0x4)
	sg("REPORT", "I4 SubmitSequenceNumber_1, I4 SubmitSequenceNumber_2, I4 SubmitSequenceNumber_3, I1 ReportType, T21 UserNumber, I1 State, I1 ErrorCode, T8 Reserve", 0x5)
	sg("REPORT_RESP", "I1 Result, T8 Reserve", r|0x5)

	// ---- SMGP 3.0.3 (verified after decrypting the PDF) ----
	sp := func(name, body string, ids ...uint32) {
		t = append(t, mk("smgp/smgp30", name, "verified", hdrSMGP, body, ids...))
	}
	sp("Login", "T8 ClientID, B16 AuthenticatorClient, I1 LoginMode, I4 TimeStamp, I1 ClientVersion", 0x1)
	sp("Login_Resp", "I4 Status, B16 AuthenticatorServer, I1 ServerVersion", r|0x1)
	sp("Submit", "I1 MsgType, I1 NeedReport, I1 Priority, T10 ServiceID, T2 FeeType, T6 FeeCode, T6 FixedFee, I1 MsgFormat, T17 ValidTime, T17 AtTime, T21 SrcTermID, "+
		"T21 ChargeTermID, I1 DestTermIDCount, R(DestTermIDCount){T21 DestTermID}, I1 MsgLength, V(MsgLength) MsgContent, T8 Reserve, TLV*", 0x2)
	sp("Submit_Resp", "B10 MsgID, I4 Status", r|0x2)
	sp("Deliver", "B10 MsgID, I1 IsReport, I1 MsgFormat, T14 RecvTime, T21 SrcTermID, T21 DestTermID, I1 MsgLength, V(MsgLength) MsgContent, T8 Reserve, TLV*", 0x3)
	sp("Deliver_Resp", "B10 MsgID, I4 Status", r|0x3)
	sp("Active_Test", "", 0x4)
	sp("Active_Test_Resp", "", r|0x4)
	sp("Exit", "", 0x6)
	sp("Exit_Resp", "", r|0x6)
	return t
}

// StatusReport is the CMPP status-report body carried in Msg_Content of a DELIVER (C18).
var StatusReport = PDU{Proto: "cmpp", Name: "status report", Source: "verified",
	Fields: parse("I8 Msg_Id, T7 Stat, T10 Submit_time, T10 Done_time, T21 Dest_terminal_Id, I4 SMSC_sequence")}

// Lookup finds the layout for (protocol package, command id).
func Lookup(proto string, id uint32) *PDU {
	for i := range All {
		if All[i].Proto != proto {
			continue
		}
		for _, x := range All[i].IDs {
			if x == id {
				return &All[i]
			}
		}
	}
	return nil
}

// Norm normalises a field name for binding spec names to Go names.
func Norm(s string) string {
	s = strings.ToLower(s)
	s = strings.ReplaceAll(s, "_", "")
	return s
}

// aliases: normalised spec name -> normalised Go field names accepted at that slot.
var aliases = map[string][]string{
	"totallength":     {"totallength", "length"},
	"commandlength":   {"length"},
	"messagelength":   {"totallength", "messagelength"},
	"packetlength":    {"totallength"},
	"commandid":       {"commandid", "id"},
	"requestid":       {"commandid"},
	"commandstatus":   {"status"},
	"sequencenumber":  {"sequence"},
	"sequencenumber1": {"sequence"}, "sequencenumber2": {"sequence"}, "sequencenumber3": {"sequence"},
	"submitsequencenumber1": {"submitsequence"}, "submitsequencenumber2": {"submitsequence"}, "submitsequencenumber3": {"submitsequence"},
	"logintype":          {"type"},
	"loginname":          {"name"},
	"loginpassword":      {"password"},
	"reserve":            {"reserve", "reserved"},
	"reserved":           {"reserve", "reserved"},
	"clientversion":      {"version"},
	"status":             {"status", "result"},
	"msgcontent":         {"msgcontent"},
	"registereddelivery": {"registereddelivery", "registereddeliver"},
	"corpid":             {"corpid"},
	"validtime":          {"validtime", "validtime"},
	"validtime2":         {},
}

// NameMatches reports whether a Go field name is an accepted spelling of a spec field name.
func NameMatches(specName, goName string) bool {
	s, g := Norm(specName), Norm(goName)
	if s == g {
		return true
	}
	for _, a := range aliases[s] {
		if a == g {
			return true
		}
	}
	return false
}
