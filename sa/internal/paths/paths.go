// Package paths enumerates the control-flow paths of small, loop-free SSA functions (engine E8).
// It is not a symbolic executor with a solver: it only records, for every entry-to-return path,
// the ordered list of instructions on it, resolves phis by the edge taken, binds callee
// parameters and results when a selected module callee is inlined, and prunes a path only when
// the branch condition resolves to a boolean constant or contradicts a fact the client derives
// from the events recorded earlier on the same path. The rules that consume the paths are in
// package props.
package paths

import (
	"fmt"
	"go/constant"
	"go/token"
	"go/types"
	"sort"

	"golang.org/x/tools/go/ssa"
)

type EventKind int

const (
	EvInstr  EventKind = iota // any instruction (calls, stores, loads, ...)
	EvBranch                  // an If taken in a given direction
	EvReturn                  // return of the outermost function
	EvEnter                   // entering an inlined callee
	EvLeave                   // leaving an inlined callee
	EvLoop                    // a side-effect-free loop was stepped over (Config.SkipPureLoops); Instr is the header's first instruction
)

// env is a persistent (immutable, shared-tail) binding list: phi -> value, inlined call -> results.
type env struct {
	phi  *ssa.Phi
	call *ssa.Call
	val  ssa.Value
	vals []ssa.Value
	next *env
}

type frame struct {
	fn        *ssa.Function
	params    map[*ssa.Parameter]ssa.Value
	parent    *frame
	parentEnv *env // the caller's bindings at the call
	id        int
}

type Event struct {
	Kind  EventKind
	Instr ssa.Instruction
	Cond  ssa.Value // EvBranch (resolved)
	Taken bool
	Depth int
	Fn    *ssa.Function
	frame *frame
	env   *env
	tbl   *[]Event // the finished path this event belongs to (set when the path is recorded)
	idx   int      // index of the event in that path
}

// Path is one entry-to-return path.
type Path struct {
	Events  []Event
	Results []ssa.Value // operands of the outermost return, resolved
	Aborted string      // non-empty if enumeration gave up on this path (loop, panic)
}

// Config controls enumeration.
type Config struct {
	Inline   func(call *ssa.Call, callee *ssa.Function) bool
	MaxPaths int
	MaxDepth int
	// Decide lets the client prune infeasible branches from facts on the path so far:
	// +1 only the true branch is feasible, -1 only the false branch, 0 both.
	Decide func(w *Walker, cond ssa.Value) int
	// SkipPureLoops steps over a natural loop that has no effect (no call other than len/cap, no store, no map update,
	// no send, no go/defer, no return or panic inside): the path continues at each exit edge with the values the loop
	// defines left unresolved. Without it a loop aborts the path.
	SkipPureLoops bool
}

// Walker carries the state of the path being built.
type Walker struct {
	cfg     Config
	events  []Event
	out     []*Path
	curF    *frame
	curE    *env
	nframes int
	onPath  map[visitKey]int
}

type visitKey struct {
	f *frame
	b *ssa.BasicBlock
}

// Enumerate returns all paths of fn.
func Enumerate(fn *ssa.Function, cfg Config) ([]*Path, error) {
	if fn == nil || len(fn.Blocks) == 0 {
		return nil, fmt.Errorf("no SSA body")
	}
	if cfg.MaxPaths == 0 {
		cfg.MaxPaths = 4096
	}
	if cfg.MaxDepth == 0 {
		cfg.MaxDepth = 3
	}
	w := &Walker{cfg: cfg, onPath: map[visitKey]int{}}
	root := &frame{fn: fn, params: map[*ssa.Parameter]ssa.Value{}}
	err := w.block(root, nil, fn.Blocks[0], nil, nil)
	return w.out, err
}

func (w *Walker) Events() []Event { return w.events }

// Resolve maps a value through phis, inlined parameters and inlined call results as of now.
func (w *Walker) Resolve(v ssa.Value) ssa.Value {
	// a value of another function on the path (an inlined callee that has returned) is resolved in that function's frame
	if v != nil && w.curF != nil && v.Parent() != nil && v.Parent() != w.curF.fn {
		for i := len(w.events) - 1; i >= 0; i-- {
			o := w.events[i]
			if o.Kind == EvEnter || o.Kind == EvLeave || o.frame == nil {
				continue
			}
			if o.frame.fn == v.Parent() {
				return resolveIn(o.frame, o.env, v)
			}
		}
	}
	return resolveIn(w.curF, w.curE, v)
}

// Resolve resolves a value as of the moment the event was recorded.
func (e Event) Resolve(v ssa.Value) ssa.Value {
	// a value that belongs to another function on the path (an inlined callee that has returned, or the caller) is resolved
	// in the frame of the most recent event of that function at or before this one
	if v != nil && e.tbl != nil && e.frame != nil && v.Parent() != nil && v.Parent() != e.frame.fn {
		evs := *e.tbl
		for i := e.idx; i >= 0 && i < len(evs); i-- {
			o := evs[i]
			if o.Kind == EvEnter || o.Kind == EvLeave || o.frame == nil {
				continue
			}
			if o.frame.fn == v.Parent() {
				return resolveIn(o.frame, o.env, v)
			}
		}
	}
	return resolveIn(e.frame, e.env, v)
}

func lookupPhi(e *env, p *ssa.Phi) (ssa.Value, bool) {
	for ; e != nil; e = e.next {
		if e.phi == p {
			return e.val, true
		}
	}
	return nil, false
}

func lookupCall(e *env, c *ssa.Call) ([]ssa.Value, bool) {
	for ; e != nil; e = e.next {
		if e.call == c {
			return e.vals, true
		}
	}
	return nil, false
}

func resolveIn(f *frame, e *env, v ssa.Value) ssa.Value {
	for i := 0; i < 64 && f != nil; i++ {
		switch x := v.(type) {
		case *ssa.Phi:
			nv, ok := lookupPhi(e, x)
			if !ok {
				return v
			}
			v = nv // already resolved when bound
			return v
		case *ssa.Parameter:
			nv, ok := f.params[x]
			if !ok {
				return v
			}
			return nv // bound values are resolved in the caller at call time
		case *ssa.Call:
			if vals, ok := lookupCall(e, x); ok && len(vals) == 1 {
				return vals[0]
			}
			return v
		case *ssa.Extract:
			if c, ok := x.Tuple.(*ssa.Call); ok {
				if vals, ok := lookupCall(e, c); ok && x.Index < len(vals) {
					return vals[x.Index]
				}
			}
			return v
		}
		return v
	}
	return v
}

func (w *Walker) emit(e Event) { w.events = append(w.events, e) }

// record copies the current events into a finished path; every copied event learns its path and position.
func (w *Walker) record(p *Path) {
	evs := append([]Event{}, w.events...)
	for i := range evs {
		evs[i].tbl = &evs
		evs[i].idx = i
	}
	p.Events = evs
	w.out = append(w.out, p)
}

type cont func(results []ssa.Value) error

// block walks basic block b of frame f entered from pred with bindings e; k continues the caller when f returns.
func (w *Walker) block(f *frame, e *env, b *ssa.BasicBlock, pred *ssa.BasicBlock, k cont) error {
	if len(w.out) >= w.cfg.MaxPaths {
		return fmt.Errorf("more than %d paths", w.cfg.MaxPaths)
	}
	key := visitKey{f, b}
	if w.cfg.SkipPureLoops && w.onPath[key] == 0 {
		if loop := pureLoop(b); loop != nil && (pred == nil || !loop[pred]) {
			depth := 0
			for p := f.parent; p != nil; p = p.parent {
				depth++
			}
			m := len(w.events)
			w.emit(Event{Kind: EvLoop, Instr: b.Instrs[0], Depth: depth, Fn: f.fn, frame: f, env: e})
			var blocks []*ssa.BasicBlock
			for x := range loop {
				blocks = append(blocks, x)
			}
			sort.Slice(blocks, func(i, j int) bool { return blocks[i].Index < blocks[j].Index })
			for _, x := range blocks {
				for _, s := range x.Succs {
					if loop[s] {
						continue
					}
					if err := w.block(f, e, s, x, k); err != nil {
						return err
					}
				}
			}
			w.events = w.events[:m]
			return nil
		}
	}
	if w.onPath[key] > 0 {
		w.record(&Path{Aborted: fmt.Sprintf("loop through block %d of %s", b.Index, f.fn.Name())})
		return nil
	}
	w.onPath[key]++
	defer func() { w.onPath[key]-- }()
	// bind phis for the edge taken (all phis read the bindings that were current before the block)
	ne := e
	for _, ins := range b.Instrs {
		phi, ok := ins.(*ssa.Phi)
		if !ok {
			break
		}
		for i, p := range b.Preds {
			if p == pred {
				ne = &env{phi: phi, val: resolveIn(f, e, phi.Edges[i]), next: ne}
			}
		}
	}
	return w.instrs(f, ne, b, 0, k)
}

// pureLoop returns the natural loop headed by h if h is a loop header and the loop has no effect; nil otherwise.
func pureLoop(h *ssa.BasicBlock) map[*ssa.BasicBlock]bool {
	loop := map[*ssa.BasicBlock]bool{h: true}
	var stack []*ssa.BasicBlock
	for _, p := range h.Preds {
		if h.Dominates(p) && !loop[p] {
			loop[p] = true
			stack = append(stack, p)
		}
		if p == h {
			stack = append(stack, p)
		}
	}
	if len(loop) == 1 && len(stack) == 0 {
		return nil // no back edge
	}
	for len(stack) > 0 {
		x := stack[len(stack)-1]
		stack = stack[:len(stack)-1]
		if x == h {
			continue
		}
		for _, p := range x.Preds {
			if !loop[p] {
				loop[p] = true
				stack = append(stack, p)
			}
		}
	}
	for x := range loop {
		for _, ins := range x.Instrs {
			switch y := ins.(type) {
			case *ssa.Phi, *ssa.BinOp, *ssa.UnOp, *ssa.IndexAddr, *ssa.Index, *ssa.FieldAddr, *ssa.Field, *ssa.Slice, *ssa.Convert,
				*ssa.ChangeType, *ssa.Extract, *ssa.Lookup, *ssa.Next, *ssa.If, *ssa.Jump, *ssa.DebugRef:
				if u, ok := y.(*ssa.UnOp); ok && u.Op == token.ARROW {
					return nil // channel receive
				}
			case *ssa.Call:
				b, ok := y.Call.Value.(*ssa.Builtin)
				if !ok || (b.Name() != "len" && b.Name() != "cap") {
					return nil
				}
			default:
				return nil
			}
		}
	}
	return loop
}

func boolConst(v ssa.Value) (bool, bool) {
	c, ok := v.(*ssa.Const)
	if !ok || c.Value == nil || c.Value.Kind() != constant.Bool {
		return false, false
	}
	return constant.BoolVal(c.Value), true
}

func (w *Walker) instrs(f *frame, e *env, b *ssa.BasicBlock, from int, k cont) error {
	mark := len(w.events)
	defer func() { w.events = w.events[:mark] }()
	depth := 0
	for p := f.parent; p != nil; p = p.parent {
		depth++
	}
	for i := from; i < len(b.Instrs); i++ {
		ins := b.Instrs[i]
		w.curF, w.curE = f, e
		switch x := ins.(type) {
		case *ssa.Phi, *ssa.DebugRef:
			continue
		case *ssa.If:
			cond := resolveIn(f, e, x.Cond)
			dec := 0
			if bv, ok := boolConst(cond); ok {
				dec = -1
				if bv {
					dec = 1
				}
			} else if w.cfg.Decide != nil {
				dec = w.cfg.Decide(w, cond)
			}
			for _, taken := range []bool{true, false} {
				if (dec > 0 && !taken) || (dec < 0 && taken) {
					continue
				}
				m := len(w.events)
				w.emit(Event{Kind: EvBranch, Instr: ins, Cond: cond, Taken: taken, Depth: depth, Fn: f.fn, frame: f, env: e})
				succ := b.Succs[1]
				if taken {
					succ = b.Succs[0]
				}
				if err := w.block(f, e, succ, b, k); err != nil {
					return err
				}
				w.events = w.events[:m]
			}
			return nil
		case *ssa.Jump:
			return w.block(f, e, b.Succs[0], b, k)
		case *ssa.Return:
			var res []ssa.Value
			for _, r := range x.Results {
				res = append(res, resolveIn(f, e, r))
			}
			if f.parent == nil {
				w.emit(Event{Kind: EvReturn, Instr: ins, Depth: depth, Fn: f.fn, frame: f, env: e})
				w.record(&Path{Results: res})
				return nil
			}
			return k(res)
		case *ssa.Panic:
			w.emit(Event{Kind: EvInstr, Instr: ins, Depth: depth, Fn: f.fn, frame: f, env: e})
			w.record(&Path{Aborted: "panic"})
			return nil
		case *ssa.Call:
			callee := x.Call.StaticCallee()
			if callee != nil && len(callee.Blocks) > 0 && w.cfg.Inline != nil && depth < w.cfg.MaxDepth && w.cfg.Inline(x, callee) {
				w.nframes++
				nf := &frame{fn: callee, params: map[*ssa.Parameter]ssa.Value{}, parent: f, parentEnv: e, id: w.nframes}
				args := x.Call.Args
				for j, p := range callee.Params {
					if j < len(args) {
						nf.params[p] = resolveIn(f, e, args[j])
					}
				}
				w.emit(Event{Kind: EvEnter, Instr: ins, Depth: depth, Fn: callee, frame: f, env: e})
				call, idx := x, i
				return w.block(nf, nil, callee.Blocks[0], nil, func(results []ssa.Value) error {
					ne := &env{call: call, vals: results, next: e}
					w.emit(Event{Kind: EvLeave, Instr: call, Depth: depth, Fn: callee, frame: f, env: ne})
					return w.instrs(f, ne, b, idx+1, k)
				})
			}
			w.emit(Event{Kind: EvInstr, Instr: ins, Depth: depth, Fn: f.fn, frame: f, env: e})
		default:
			w.emit(Event{Kind: EvInstr, Instr: ins, Depth: depth, Fn: f.fn, frame: f, env: e})
		}
	}
	return nil
}

// ---------------------------------------------------------------------------------------------
// helpers for rule code

// FieldOf recognises `&x.f` (FieldAddr) or a load of it and returns (base value, field).
func FieldOf(v ssa.Value) (ssa.Value, *types.Var, bool) {
	if u, ok := v.(*ssa.UnOp); ok && u.Op == token.MUL {
		v = u.X
	}
	fa, ok := v.(*ssa.FieldAddr)
	if !ok {
		return nil, nil, false
	}
	pt, ok := fa.X.Type().Underlying().(*types.Pointer)
	if !ok {
		return nil, nil, false
	}
	st, ok := pt.Elem().Underlying().(*types.Struct)
	if !ok {
		return nil, nil, false
	}
	return fa.X, st.Field(fa.Field), true
}

// IsNilConst reports whether v is the nil constant.
func IsNilConst(v ssa.Value) bool {
	c, ok := v.(*ssa.Const)
	return ok && c.IsNil()
}
