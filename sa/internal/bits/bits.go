// Package bits is engine E6: abstract evaluation of integer SSA expressions built from
// & | ^ << >> + (on provably disjoint bit ranges) conversions and constants to a vector
// "output bit b <- bit c of source s | 0 | 1 | conflict". It proves wiring (which input bit
// lands where) for all input values at once.
package bits

import (
	"fmt"
	"go/constant"
	"go/token"
	"go/types"
	"strings"

	"golang.org/x/tools/go/ssa"
)

type Kind uint8

const (
	Zero Kind = iota
	One
	Src      // bit Idx of source Name
	Conflict // more than one contribution / not representable
)

type Bit struct {
	K    Kind
	Name string
	Idx  int
	Why  string
}

func (b Bit) String() string {
	switch b.K {
	case Zero:
		return "0"
	case One:
		return "1"
	case Src:
		return fmt.Sprintf("%s.%d", b.Name, b.Idx)
	}
	return "!" + b.Why
}

// Vec is a 64-bit vector, least significant bit first.
type Vec [64]Bit

// Eval holds the evaluation policy.
type Eval struct {
	// LeafName names a leaf value (nil: default naming by SSA name); returning "" makes the value a conflict leaf.
	LeafName func(v ssa.Value) string
	// LeafWidth overrides the number of possibly non-zero bits of a leaf (e.g. from the property's stated ranges); 0 = by type.
	LeafWidth func(v ssa.Value) int
	// Resolve maps a value before evaluation (phi / parameter resolution of a path).
	Resolve func(v ssa.Value) ssa.Value
	// Inline says which callees Interp may evaluate through (helpers of the package, closures).
	Inline func(callee *ssa.Function) bool
	// Env binds values to vectors that are already known (Interp: everything computed so far on the path executed).
	Env map[ssa.Value]Vec
}

// constVal: the vector as a number, if every bit is known.
func (v Vec) constVal() (uint64, bool) {
	var u uint64
	for i, b := range v {
		switch b.K {
		case One:
			u |= 1 << uint(i)
		case Zero:
		default:
			return 0, false
		}
	}
	return u, true
}

func conflictVec(why string) Vec {
	var out Vec
	for i := range out {
		out[i] = Bit{K: Conflict, Why: why}
	}
	return out
}

func typeBits(t types.Type) (int, bool) {
	b, ok := t.Underlying().(*types.Basic)
	if !ok {
		return 0, false
	}
	switch b.Kind() {
	case types.Uint8:
		return 8, true
	case types.Int8:
		return 8, false
	case types.Uint16:
		return 16, true
	case types.Int16:
		return 16, false
	case types.Uint32:
		return 32, true
	case types.Int32:
		return 32, false
	case types.Uint64, types.Uint, types.Uintptr:
		return 64, true
	case types.Int64, types.Int:
		return 64, false
	}
	return 0, false
}

func constVec(u uint64) Vec {
	var v Vec
	for i := 0; i < 64; i++ {
		if u>>uint(i)&1 == 1 {
			v[i] = Bit{K: One}
		}
	}
	return v
}

func (e *Eval) leaf(v ssa.Value) Vec {
	var out Vec
	name := v.Name()
	if e.LeafName != nil {
		name = e.LeafName(v)
	}
	w, unsigned := typeBits(v.Type())
	if name == "" || w == 0 {
		for i := range out {
			out[i] = Bit{K: Conflict, Why: "unsupported value " + v.String()}
		}
		return out
	}
	if e.LeafWidth != nil {
		if ow := e.LeafWidth(v); ow > 0 && ow < w {
			w, unsigned = ow, true
		}
	}
	for i := 0; i < 64; i++ {
		switch {
		case i < w:
			out[i] = Bit{K: Src, Name: name, Idx: i}
		case unsigned:
			out[i] = Bit{K: Zero}
		default:
			out[i] = Bit{K: Src, Name: name, Idx: w - 1} // sign extension
		}
	}
	return out
}

func truncate(v Vec, t types.Type) Vec {
	w, _ := typeBits(t)
	if w == 0 || w >= 64 {
		return v
	}
	for i := w; i < 64; i++ {
		v[i] = Bit{K: Zero}
	}
	return v
}

func constOf(v ssa.Value) (uint64, bool) {
	c, ok := v.(*ssa.Const)
	if !ok || c.Value == nil || c.Value.Kind() != constant.Int {
		return 0, false
	}
	if u, ok := constant.Uint64Val(c.Value); ok {
		return u, true
	}
	if i, ok := constant.Int64Val(c.Value); ok {
		return uint64(i), true
	}
	return 0, false
}

// Of evaluates v.
func (e *Eval) Of(v ssa.Value) Vec {
	if e.Resolve != nil {
		v = e.Resolve(v)
	}
	if u, ok := constOf(v); ok {
		return constVec(u)
	}
	if vec, ok := e.Env[v]; ok {
		return vec
	}
	switch x := v.(type) {
	case *ssa.Convert:
		if _, ok := typeBits(x.X.Type()); ok || isIntLike(x.X.Type()) {
			in := e.Of(x.X)
			fw, funs := typeBits(x.X.Type())
			tw, _ := typeBits(x.Type())
			// widening of an unsigned (or masked) value is zero extension: the vector already has zeros above fw;
			// widening of a signed value: the vector carries the sign bit copies.
			_ = funs
			if tw < fw {
				return truncate(in, x.Type())
			}
			return truncate(in, x.Type())
		}
	case *ssa.ChangeType:
		return e.Of(x.X)
	case *ssa.BinOp:
		switch x.Op {
		case token.AND:
			a, b := e.Of(x.X), e.Of(x.Y)
			var out Vec
			for i := range out {
				switch {
				case a[i].K == Zero || b[i].K == Zero:
					out[i] = Bit{K: Zero}
				case a[i].K == One:
					out[i] = b[i]
				case b[i].K == One:
					out[i] = a[i]
				case a[i] == b[i]:
					out[i] = a[i]
				default:
					out[i] = Bit{K: Conflict, Why: "and of two sources"}
				}
			}
			return truncate(out, x.Type())
		case token.OR, token.XOR, token.ADD:
			a, b := e.Of(x.X), e.Of(x.Y)
			if x.Op == token.ADD {
				if ca, ok := a.constVal(); ok {
					if cb, ok := b.constVal(); ok {
						return truncate(constVec(ca+cb), x.Type())
					}
				}
			}
			var out Vec
			overlap := false
			for i := range out {
				switch {
				case a[i].K == Zero:
					out[i] = b[i]
				case b[i].K == Zero:
					out[i] = a[i]
				case x.Op == token.OR && a[i] == b[i]:
					out[i] = a[i]
				case x.Op == token.OR && (a[i].K == One || b[i].K == One) && a[i].K != Conflict && b[i].K != Conflict:
					out[i] = Bit{K: One}
				default:
					overlap = true
					out[i] = Bit{K: Conflict, Why: fmt.Sprintf("%s of two contributions (%s, %s)", x.Op, a[i], b[i])}
				}
			}
			if overlap && x.Op == token.ADD {
				// carries can spread upwards from the lowest overlapping bit
				low := 0
				for i := range out {
					if out[i].K == Conflict {
						low = i
						break
					}
				}
				for i := low; i < 64; i++ {
					if out[i].K != Conflict {
						out[i] = Bit{K: Conflict, Why: "carry from an overlapping addition"}
					}
				}
			}
			return truncate(out, x.Type())
		case token.SUB, token.MUL:
			// folded when both operands are known numbers (a mask written 1<<w - 1)
			a, aok := e.Of(x.X).constVal()
			b, bok := e.Of(x.Y).constVal()
			if aok && bok {
				if x.Op == token.SUB {
					return truncate(constVec(a-b), x.Type())
				}
				return truncate(constVec(a*b), x.Type())
			}
			if bok && b == 0 && x.Op == token.SUB {
				return e.Of(x.X)
			}
		case token.SHL, token.SHR:
			k, ok := constOf(x.Y)
			if e.Resolve != nil {
				k, ok = constOf(e.Resolve(x.Y))
			}
			if !ok {
				k, ok = e.Of(x.Y).constVal()
			}
			if !ok {
				break
			}
			a := e.Of(x.X)
			var out Vec
			w, unsigned := typeBits(x.Type())
			if w == 0 {
				w = 64
			}
			for i := 0; i < 64; i++ {
				var src int
				if x.Op == token.SHL {
					src = i - int(k)
				} else {
					src = i + int(k)
				}
				switch {
				case src < 0:
					out[i] = Bit{K: Zero}
				case src >= w:
					if x.Op == token.SHR && !unsigned {
						out[i] = a[w-1]
					} else {
						out[i] = Bit{K: Zero}
					}
				default:
					out[i] = a[src]
				}
			}
			return truncate(out, x.Type())
		}
	}
	return truncate(e.leaf(v), v.Type())
}

func isIntLike(t types.Type) bool {
	b, ok := t.Underlying().(*types.Basic)
	return ok && b.Info()&types.IsInteger != 0
}

// Describe renders the non-zero part of a vector compactly: runs of consecutive source bits.
func (v Vec) Describe(width int) string {
	var parts []string
	i := 0
	for i < width {
		b := v[i]
		if b.K == Zero {
			i++
			continue
		}
		if b.K != Src {
			parts = append(parts, fmt.Sprintf("[%d]=%s", i, b))
			i++
			continue
		}
		j := i
		for j+1 < width && v[j+1].K == Src && v[j+1].Name == b.Name && v[j+1].Idx == v[j].Idx+1 {
			j++
		}
		parts = append(parts, fmt.Sprintf("[%d..%d]=%s[%d..%d]", j, i, b.Name, v[j].Idx, b.Idx))
		i = j + 1
	}
	if len(parts) == 0 {
		return "0"
	}
	return strings.Join(parts, " ")
}

// Field reports whether bits [lo, lo+w) of v are exactly bits [slo, slo+w) of source name.
func (v Vec) Field(lo, w int, name string, slo int) bool {
	for i := 0; i < w; i++ {
		b := v[lo+i]
		if b.K != Src || b.Name != name || b.Idx != slo+i {
			return false
		}
	}
	return true
}

// ZeroOutside reports whether every bit outside [lo, lo+w) below width is zero.
func (v Vec) ZeroOutside(lo, w, width int) bool {
	for i := 0; i < width; i++ {
		if i >= lo && i < lo+w {
			continue
		}
		if v[i].K != Zero {
			return false
		}
	}
	return true
}

// HasConflict reports whether any bit below width is a conflict.
func (v Vec) HasConflict(width int) (string, bool) {
	for i := 0; i < width; i++ {
		if v[i].K == Conflict {
			return fmt.Sprintf("bit %d: %s", i, v[i].Why), true
		}
	}
	return "", false
}
