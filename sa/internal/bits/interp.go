package bits

import (
	"fmt"
	"go/token"
	"go/types"
	"strings"

	"golang.org/x/tools/go/ssa"
)

// Interp evaluates a function whose control flow does not depend on its inputs: data are bit vectors (as in Of), control
// is concrete. Every branch condition must come out as a known number (a loop over a table of constants, a counter
// against a constant bound); locals - arrays and structs included - are tracked cell by cell; calls of functions the
// policy allows (Inline) are evaluated the same way, closures with the variables they capture. Anything else - a branch
// on an input, a pointer that is not a local cell, an effect outside the locals - is an error, and the caller reports
// the function as not analysable. It returns the vectors of the results.
func (e *Eval) Interp(fn *ssa.Function) ([]Vec, error) {
	in := &interp{ev: e, mem: map[string]Vec{}, steps: new(int)}
	return in.run(fn, nil, nil)
}

type interp struct {
	ev    *Eval
	mem   map[string]Vec // scalar cells of locals and of aggregate snapshots
	n     int
	steps *int
}

type iframe struct {
	env map[ssa.Value]Vec
	ptr map[ssa.Value]string // addresses of local cells
	agg map[ssa.Value]string // aggregate values: the name of an immutable snapshot region
	clo map[ssa.Value]*ssa.MakeClosure
}

func (in *interp) fresh(kind string) string {
	in.n++
	return fmt.Sprintf("%s#%d", kind, in.n)
}

func (in *interp) copyRegion(from, to string) {
	for k := range in.mem {
		if k == to || strings.HasPrefix(k, to+"/") || strings.HasPrefix(k, to+".") {
			delete(in.mem, k)
		}
	}
	add := map[string]Vec{}
	for k, v := range in.mem {
		if k == from {
			add[to] = v
		} else if strings.HasPrefix(k, from+"/") || strings.HasPrefix(k, from+".") {
			add[to+k[len(from):]] = v
		}
	}
	for k, v := range add {
		in.mem[k] = v
	}
}

func scalar(t types.Type) bool {
	_, ok := typeBits(t)
	if ok {
		return true
	}
	return isIntLike(t)
}

func (in *interp) run(fn *ssa.Function, args []Vec, captured map[*ssa.FreeVar]string) ([]Vec, error) {
	if len(fn.Blocks) == 0 {
		return nil, fmt.Errorf("%s has no body", fn.Name())
	}
	f := &iframe{env: map[ssa.Value]Vec{}, ptr: map[ssa.Value]string{}, agg: map[ssa.Value]string{}, clo: map[ssa.Value]*ssa.MakeClosure{}}
	for i, p := range fn.Params {
		if args != nil {
			f.env[p] = args[i]
		}
	}
	for fv, p := range captured {
		f.ptr[fv] = p
	}
	// a local evaluator that sees this frame's values
	ev := &Eval{LeafName: in.ev.LeafName, LeafWidth: in.ev.LeafWidth, Env: f.env}
	if args != nil {
		ev.LeafName = func(ssa.Value) string { return "" }
		ev.LeafWidth = nil
	}
	val := func(v ssa.Value) Vec { return ev.Of(v) }
	// compute evaluates an instruction from its operands (what an earlier loop iteration left for it is dropped first)
	compute := func(v ssa.Value) {
		delete(f.env, v)
		f.env[v] = ev.Of(v)
	}
	var pred *ssa.BasicBlock
	b := fn.Blocks[0]
	for {
		var next *ssa.BasicBlock
		// phis read the values of the edge taken, all at once
		newPhi := map[ssa.Value]Vec{}
		for _, ins := range b.Instrs {
			phi, ok := ins.(*ssa.Phi)
			if !ok {
				break
			}
			for i, p := range b.Preds {
				if p == pred {
					if !scalar(phi.Type()) {
						return nil, fmt.Errorf("%s: a phi of a non-integer value", fn.Name())
					}
					newPhi[phi] = val(phi.Edges[i])
				}
			}
		}
		for k, v := range newPhi {
			f.env[k] = v
		}
		for _, ins := range b.Instrs {
			*in.steps++
			if *in.steps > 20000 {
				return nil, fmt.Errorf("%s: more than 20000 steps", fn.Name())
			}
			switch x := ins.(type) {
			case *ssa.Phi, *ssa.DebugRef:
			case *ssa.Alloc:
				f.ptr[x] = in.fresh("local")
			case *ssa.IndexAddr:
				base, ok := f.ptr[x.X]
				k, kok := val(x.Index).constVal()
				if !ok || !kok {
					return nil, fmt.Errorf("%s: an element address that is not a constant index into a local", fn.Name())
				}
				f.ptr[x] = fmt.Sprintf("%s/%d", base, k)
			case *ssa.FieldAddr:
				base, ok := f.ptr[x.X]
				if !ok {
					return nil, fmt.Errorf("%s: a field address outside the locals", fn.Name())
				}
				f.ptr[x] = fmt.Sprintf("%s.%d", base, x.Field)
			case *ssa.Store:
				p, ok := f.ptr[x.Addr]
				if !ok {
					return nil, fmt.Errorf("%s: a store outside the locals", fn.Name())
				}
				if scalar(x.Val.Type()) {
					in.mem[p] = val(x.Val)
				} else if a, ok := f.agg[x.Val]; ok {
					in.copyRegion(a, p)
				} else {
					return nil, fmt.Errorf("%s: a stored value that is neither an integer nor a tracked aggregate", fn.Name())
				}
			case *ssa.UnOp:
				if x.Op != token.MUL {
					if !scalar(x.Type()) {
						return nil, fmt.Errorf("%s: unsupported operation %s", fn.Name(), x)
					}
					compute(x)
					break
				}
				p, ok := f.ptr[x.X]
				if !ok {
					return nil, fmt.Errorf("%s: a load outside the locals", fn.Name())
				}
				if scalar(x.Type()) {
					f.env[x] = truncate(in.mem[p], x.Type()) // an unwritten cell is zero
				} else {
					a := in.fresh("value")
					in.copyRegion(p, a)
					f.agg[x] = a
				}
			case *ssa.Index:
				a, ok := f.agg[x.X]
				k, kok := val(x.Index).constVal()
				if !ok || !kok {
					return nil, fmt.Errorf("%s: an element that is not a constant index into a tracked array", fn.Name())
				}
				src := fmt.Sprintf("%s/%d", a, k)
				if scalar(x.Type()) {
					f.env[x] = truncate(in.mem[src], x.Type())
				} else {
					f.agg[x] = src
				}
			case *ssa.Field:
				a, ok := f.agg[x.X]
				if !ok {
					return nil, fmt.Errorf("%s: a field of an untracked value", fn.Name())
				}
				src := fmt.Sprintf("%s.%d", a, x.Field)
				if scalar(x.Type()) {
					f.env[x] = truncate(in.mem[src], x.Type())
				} else {
					f.agg[x] = src
				}
			case *ssa.BinOp:
				switch x.Op {
				case token.EQL, token.NEQ, token.LSS, token.LEQ, token.GTR, token.GEQ:
					// decided at the branch
				default:
					compute(x)
				}
			case *ssa.Convert:
				if !scalar(x.Type()) {
					return nil, fmt.Errorf("%s: a conversion to a non-integer type", fn.Name())
				}
				compute(x)
			case *ssa.ChangeType:
				if !scalar(x.Type()) {
					return nil, fmt.Errorf("%s: a conversion to a non-integer type", fn.Name())
				}
				compute(x)
			case *ssa.MakeClosure:
				f.clo[x] = x
			case *ssa.Call:
				if bi, ok := x.Call.Value.(*ssa.Builtin); ok && (bi.Name() == "len" || bi.Name() == "cap") {
					t := x.Call.Args[0].Type().Underlying()
					if pt, isP := t.(*types.Pointer); isP {
						t = pt.Elem().Underlying()
					}
					if at, isA := t.(*types.Array); isA {
						f.env[x] = constVec(uint64(at.Len()))
						break
					}
					return nil, fmt.Errorf("%s: len of a value that is not an array", fn.Name())
				}
				callee := x.Call.StaticCallee()
				if callee == nil || in.ev.Inline == nil || !in.ev.Inline(callee) || x.Call.IsInvoke() {
					return nil, fmt.Errorf("%s: a call that cannot be evaluated through (%s)", fn.Name(), x)
				}
				var cargs []Vec
				for _, a := range x.Call.Args {
					if !scalar(a.Type()) {
						return nil, fmt.Errorf("%s: a non-integer argument", fn.Name())
					}
					cargs = append(cargs, val(a))
				}
				capt := map[*ssa.FreeVar]string{}
				if mc, ok := x.Call.Value.(*ssa.MakeClosure); ok {
					for i, bnd := range mc.Bindings {
						p, ok := f.ptr[bnd]
						if !ok {
							return nil, fmt.Errorf("%s: a closure captures something other than a local", fn.Name())
						}
						capt[callee.FreeVars[i]] = p
					}
				} else if len(callee.FreeVars) > 0 {
					return nil, fmt.Errorf("%s: a closure called through a variable", fn.Name())
				}
				if cargs == nil {
					cargs = []Vec{}
				}
				res, err := in.run(callee, cargs, capt)
				if err != nil {
					return nil, err
				}
				if len(res) == 1 {
					f.env[x] = res[0]
				} else if len(res) > 1 {
					return nil, fmt.Errorf("%s: a helper with several results", fn.Name())
				}
			case *ssa.Extract:
				return nil, fmt.Errorf("%s: a tuple result", fn.Name())
			case *ssa.Jump:
				next = b.Succs[0]
			case *ssa.If:
				bo, ok := x.Cond.(*ssa.BinOp)
				if !ok {
					return nil, fmt.Errorf("%s: a branch on %s", fn.Name(), x.Cond)
				}
				l, lok := val(bo.X).constVal()
				r, rok := val(bo.Y).constVal()
				if !lok || !rok {
					return nil, fmt.Errorf("%s: a branch that depends on an input (%s)", fn.Name(), bo)
				}
				_, unsigned := typeBits(bo.X.Type())
				var t bool
				if unsigned {
					switch bo.Op {
					case token.EQL:
						t = l == r
					case token.NEQ:
						t = l != r
					case token.LSS:
						t = l < r
					case token.LEQ:
						t = l <= r
					case token.GTR:
						t = l > r
					case token.GEQ:
						t = l >= r
					default:
						return nil, fmt.Errorf("%s: unsupported comparison", fn.Name())
					}
				} else {
					w, _ := typeBits(bo.X.Type())
					sx := func(u uint64) int64 {
						if w > 0 && w < 64 {
							return int64(u<<uint(64-w)) >> uint(64-w)
						}
						return int64(u)
					}
					a, c := sx(l), sx(r)
					switch bo.Op {
					case token.EQL:
						t = a == c
					case token.NEQ:
						t = a != c
					case token.LSS:
						t = a < c
					case token.LEQ:
						t = a <= c
					case token.GTR:
						t = a > c
					case token.GEQ:
						t = a >= c
					default:
						return nil, fmt.Errorf("%s: unsupported comparison", fn.Name())
					}
				}
				if t {
					next = b.Succs[0]
				} else {
					next = b.Succs[1]
				}
			case *ssa.Return:
				var out []Vec
				for _, r := range x.Results {
					if !scalar(r.Type()) {
						return nil, fmt.Errorf("%s: a non-integer result", fn.Name())
					}
					out = append(out, val(r))
				}
				return out, nil
			default:
				return nil, fmt.Errorf("%s: unsupported instruction %s", fn.Name(), ins)
			}
		}
		if next == nil {
			return nil, fmt.Errorf("%s: block %d does not continue", fn.Name(), b.Index)
		}
		pred, b = b, next
	}
}
