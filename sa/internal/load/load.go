// Package load loads and type-checks the current working tree of the repository under
// analysis, builds SSA and call graphs. Everything fails closed: any load or type error,
// or fewer packages than expected, is an error.
package load

import (
	"fmt"
	"go/ast"
	"go/token"
	"go/types"
	"os"
	"sort"
	"strings"
	"sync"

	"golang.org/x/tools/go/callgraph"
	"golang.org/x/tools/go/callgraph/cha"
	"golang.org/x/tools/go/callgraph/vta"
	"golang.org/x/tools/go/packages"
	"golang.org/x/tools/go/ssa"
	"golang.org/x/tools/go/ssa/ssautil"
)

// Module is the import path of the repository under analysis.
const Module = "github.com/hujm2023/go-sms-protocol"

// MinPackages is the number of packages confirmed by hand on the pinned tree.
const MinPackages = 15

type Program struct {
	Dir    string
	Fset   *token.FileSet
	Pkgs   []*packages.Package          // module packages only, sorted by path
	ByPath map[string]*packages.Package // module packages by import path
	All    []*packages.Package          // module packages + dependencies (for SSA)

	ssaProg *ssa.Program
	ssaPkgs map[*types.Package]*ssa.Package
	cg      *callgraph.Graph

	// Canonicalised is the number of private identifiers (functions, methods, types, fields) that were renamed back to
	// their canonical spelling in memory before the rules ran (0: the tree uses the canonical names)
	Canonicalised int

	aliasMu sync.Mutex
	aliases map[string]*types.Func // canonical "rel.name" of a renamed unexported helper -> its stand-in (nil: none)
}

// Load loads ./... of dir. goarch may be "" (host) or e.g. "386".
func Load(dir, goarch string) (*Program, error) { return LoadOverlay(dir, goarch, nil) }

// LoadOverlay is Load with in-memory extra files (absolute path -> content); nothing is written to disk.
// It is used to type-check the positive fixtures inside the real packages.
func LoadOverlay(dir, goarch string, overlay map[string][]byte) (*Program, error) {
	p, err := loadOnce(dir, goarch, overlay)
	if err != nil {
		return nil, err
	}
	// private names the rules speak of, renamed in the tree: give them their canonical spelling back in an overlay and
	// load again (alias.go)
	if plan := p.renamePlan(); len(plan) > 0 {
		ov, err := p.renameOverlay(plan, overlay, os.ReadFile)
		if err != nil {
			return nil, fmt.Errorf("canonicalising overlay: %w", err)
		}
		q, err := loadOnce(dir, goarch, ov)
		if err != nil {
			// the renamed program does not type-check (a name clash the plan did not foresee): keep the tree as it is
			return p, nil
		}
		q.Canonicalised = len(plan)
		return q, nil
	}
	return p, nil
}

func loadOnce(dir, goarch string, overlay map[string][]byte) (*Program, error) {
	env := append(os.Environ(), "GOFLAGS=-mod=mod", "GOPROXY=off", "GOSUMDB=off", "GOTOOLCHAIN=local", "GOWORK=off")
	if goarch != "" {
		env = append(env, "GOARCH="+goarch)
	}
	cfg := &packages.Config{
		Mode:    packages.LoadAllSyntax,
		Dir:     dir,
		Env:     env,
		Tests:   false,
		Overlay: overlay,
	}
	initial, err := packages.Load(cfg, "./...")
	if err != nil {
		return nil, fmt.Errorf("packages.Load: %w", err)
	}
	p := &Program{Dir: dir, ByPath: map[string]*packages.Package{}}
	var errs []string
	packages.Visit(initial, nil, func(pkg *packages.Package) {
		for _, e := range pkg.Errors {
			errs = append(errs, fmt.Sprintf("%s: %s", pkg.PkgPath, e))
		}
		p.All = append(p.All, pkg)
	})
	if len(errs) > 0 {
		sort.Strings(errs)
		return nil, fmt.Errorf("load/type errors (%d): %s", len(errs), strings.Join(errs[:min(len(errs), 5)], "; "))
	}
	for _, pkg := range initial {
		if pkg.PkgPath == Module || strings.HasPrefix(pkg.PkgPath, Module+"/") {
			if pkg.Types == nil || pkg.TypesInfo == nil || len(pkg.Syntax) == 0 {
				return nil, fmt.Errorf("package %s has no syntax/types", pkg.PkgPath)
			}
			p.Pkgs = append(p.Pkgs, pkg)
			p.ByPath[pkg.PkgPath] = pkg
			p.Fset = pkg.Fset
		}
	}
	sort.Slice(p.Pkgs, func(i, j int) bool { return p.Pkgs[i].PkgPath < p.Pkgs[j].PkgPath })
	if len(p.Pkgs) < MinPackages {
		return nil, fmt.Errorf("coverage-loss: %d module packages loaded, expected >= %d", len(p.Pkgs), MinPackages)
	}
	p.resolveAllAliases()
	return p, nil
}

// Pkg returns the module package with the given path relative to the module root ("" = root).
func (p *Program) Pkg(rel string) *packages.Package {
	path := Module
	if rel != "" {
		path += "/" + rel
	}
	return p.ByPath[path]
}

// InModule reports whether the types package belongs to the module under analysis.
func InModule(pkg *types.Package) bool {
	return pkg != nil && (pkg.Path() == Module || strings.HasPrefix(pkg.Path(), Module+"/"))
}

// Rel returns the package path relative to the module ("." for the root).
func Rel(pkgPath string) string {
	if pkgPath == Module {
		return "."
	}
	return strings.TrimPrefix(pkgPath, Module+"/")
}

// Pos renders a position relative to the repository root.
func (p *Program) Pos(pos token.Pos) string {
	if !pos.IsValid() {
		return "-"
	}
	ps := p.Fset.Position(pos)
	f := ps.Filename
	if strings.HasPrefix(f, p.Dir+"/") {
		f = f[len(p.Dir)+1:]
	}
	return fmt.Sprintf("%s:%d", f, ps.Line)
}

// SSA builds (once) the SSA form of the whole program.
func (p *Program) SSA() *ssa.Program {
	if p.ssaProg != nil {
		return p.ssaProg
	}
	prog, pkgs := ssautil.AllPackages(p.rootsForSSA(), ssa.InstantiateGenerics)
	_ = pkgs
	prog.Build()
	// an instance of a generic module function (readUnsigned[uint8]) is built with no package; it belongs to the package
	// of the function it instantiates - the rules ask a function for its package to tell module code from library code
	for fn := range ssautil.AllFunctions(prog) {
		if fn.Pkg == nil && fn.Origin() != nil && fn.Origin() != fn && fn.Origin().Pkg != nil {
			fn.Pkg = fn.Origin().Pkg
		}
	}
	canonicaliseComparisons(prog)
	p.ssaProg = prog
	p.ssaPkgs = map[*types.Package]*ssa.Package{}
	for _, sp := range prog.AllPackages() {
		p.ssaPkgs[sp.Pkg] = sp
	}
	return prog
}

func (p *Program) rootsForSSA() []*packages.Package { return p.Pkgs }

// SSAPkg returns the SSA package of a module package.
func (p *Program) SSAPkg(pkg *packages.Package) *ssa.Package {
	p.SSA()
	return p.ssaPkgs[pkg.Types]
}

// SSAFunc returns the SSA function for a types.Func declared in the module (nil if none).
func (p *Program) SSAFunc(fn *types.Func) *ssa.Function {
	if fn == nil {
		return nil
	}
	return p.SSA().FuncValue(fn)
}

// CallGraph returns the VTA call graph seeded with CHA (built once).
func (p *Program) CallGraph() *callgraph.Graph {
	if p.cg != nil {
		return p.cg
	}
	prog := p.SSA()
	fns := ssautil.AllFunctions(prog)
	p.cg = vta.CallGraph(fns, cha.CallGraph(prog))
	return p.cg
}

// FuncDecl finds the declaration of a function object in the module.
func (p *Program) FuncDecl(fn *types.Func) (*ast.FuncDecl, *packages.Package) {
	if fn == nil || fn.Pkg() == nil {
		return nil, nil
	}
	pkg := p.ByPath[fn.Pkg().Path()]
	if pkg == nil {
		return nil, nil
	}
	for _, f := range pkg.Syntax {
		for _, d := range f.Decls {
			if fd, ok := d.(*ast.FuncDecl); ok && pkg.TypesInfo.Defs[fd.Name] == fn {
				return fd, pkg
			}
		}
	}
	return nil, nil
}

// LookupFunc resolves a package-level function by (relative package, name).
func (p *Program) LookupFunc(rel, name string) *types.Func { return p.lookupFunc(rel, name, 0) }

func (p *Program) lookupFunc(rel, name string, depth int) *types.Func {
	pkg := p.Pkg(rel)
	if pkg == nil {
		return nil
	}
	if fn, _ := pkg.Types.Scope().Lookup(name).(*types.Func); fn != nil {
		return fn
	}
	// an unexported helper that was renamed: found through its callers and signature (alias.go)
	return p.resolveAlias(rel, name, depth)
}

// LookupMethod resolves a method by (relative package, type name, method name).
func (p *Program) LookupMethod(rel, typ, name string) *types.Func {
	return p.lookupMethod(rel, typ, name, 0)
}

func (p *Program) lookupMethod(rel, typ, name string, depth int) *types.Func {
	pkg := p.Pkg(rel)
	if pkg == nil {
		return nil
	}
	tn, _ := pkg.Types.Scope().Lookup(typ).(*types.TypeName)
	if tn == nil {
		return nil
	}
	named, _ := tn.Type().(*types.Named)
	if named == nil {
		return nil
	}
	for i := 0; i < named.NumMethods(); i++ {
		if m := named.Method(i); m.Name() == name {
			return m
		}
	}
	// an unexported method that was renamed (alias.go)
	return p.resolveAlias(rel, typ+"."+name, depth)
}
