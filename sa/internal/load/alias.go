package load

import (
	"go/ast"
	"go/types"
	"strings"
	"sync"
)

// Unexported helpers are anchors of several rules. Their names are not part of anything a user relies on: renaming one
// leaves every property intact, so a rule must not fail because a name is gone. Each such helper is therefore also
// described by where it is called from (an exported entry point, or another resolved helper) and by its parameter and
// result types; when the name is missing, the one unexported callee in those bodies with that signature takes its place,
// and rule keys keep the canonical name, so findings stay comparable. If no or several candidates fit, the lookup fails
// as before (fail closed).

type aliasSpec struct {
	callers []string // "Func" or "Type.Method" of the same package, in whose bodies the helper is called
	sig     string   // "param types -> result types", package-qualified by package name
	recv    string   // for a method: the receiver's type name
	arg     *argSpec // instead of a call: the helper is the i-th argument of a call of callee in the callers
}

type argSpec struct {
	callee string
	index  int
}

var aliasSpecs = map[string]aliasSpec{
	".splitWithUDHI":                         {callers: []string{"EncodeCMPPContentAndSplit", "EncodeSMPPContentAndSplit"}, sig: "[]byte,int,byte -> [][]byte,error"},
	".encodeAndSplitGSM7Packed":              {callers: []string{"EncodeSMPPContentAndSplit"}, sig: "string,byte -> [][]byte,datacoding.SMPPDataCoding,error"},
	".gsm7PartEnd":                           {callers: []string{"encodeAndSplitGSM7Packed"}, sig: "[]byte,int,int -> int"},
	".ceil":                                  {callers: []string{"splitWithUDHI"}, sig: "int,int -> int"},
	".newBatchEncoder":                       {callers: []string{"BatchDataCodingEncoder.Build"}, sig: "protocol.Protocol,datacoding.ProtocolDataCoding,string,byte,bool -> *?"},
	".encoderOrderBy":                        {callers: []string{"BatchDataCodingEncoder.Build"}, sig: "...? -> *?"},
	".byLength":                              {callers: []string{"BatchDataCodingEncoder.Build"}, arg: &argSpec{"encoderOrderBy", 0}},
	".byDataCoding":                          {callers: []string{"BatchDataCodingEncoder.Build"}, arg: &argSpec{"encoderOrderBy", 1}},
	".BatchDataCodingEncoder.allDataCodings": {callers: []string{"BatchDataCodingEncoder.Build"}, sig: " -> map[datacoding.ProtocolDataCoding]struct{}", recv: "BatchDataCodingEncoder"},
	"datacoding.isASCII":                     {callers: []string{"Ascii.Encode", "Ascii.Decode"}, sig: "string -> bool"},
	"smpp.timeToSMPPTimeFormatRelative":      {callers: []string{"ToValidatePeriod"}, sig: "time.Duration -> string"},
	"smpp.timeToSMPPTimeFormatAbsolute":      {callers: []string{"ToValidatePeriod"}, sig: "time.Time,time.Time -> string"},
	"smpp/smpp34.findSubValue":               {callers: []string{"ExtractDeliveryReceipt"}, sig: "string,string,int -> string"},
	"smgp/smgp30.findSubValue":               {callers: []string{"ExtractDeliveryReceipt"}, sig: "string,string,string,int -> string"},
	"smgp/smgp30.findSMGPIDValue":            {callers: []string{"ExtractDeliveryReceipt"}, sig: "string -> string"},
	"smgp/smgp30.genTimestamp":               {callers: []string{"NewLogin"}, sig: " -> uint32"},
	"smgp/smgp30.genAuthenticatorClient":     {callers: []string{"NewLogin"}, sig: "string,string,uint32 -> []byte,error"},
}

var (
	canonMu sync.RWMutex
	canon   = map[*types.Func]string{}
)

// CanonName is the name rules print for fn: the canonical name when fn stands in for a renamed helper, else its own.
func CanonName(fn *types.Func) string {
	if fn == nil {
		return ""
	}
	canonMu.RLock()
	n, ok := canon[fn]
	canonMu.RUnlock()
	if ok {
		return n
	}
	return fn.Name()
}

// sigString renders parameter and result types, private named types of the module as "?" (they can be renamed too).
func sigString(sig *types.Signature) string {
	var ps, rs []string
	for i := 0; i < sig.Params().Len(); i++ {
		t := normType(sig.Params().At(i).Type())
		if sig.Variadic() && i == sig.Params().Len()-1 {
			t = "..." + strings.TrimPrefix(t, "[]")
		}
		ps = append(ps, t)
	}
	for i := 0; i < sig.Results().Len(); i++ {
		rs = append(rs, normType(sig.Results().At(i).Type()))
	}
	return strings.Join(ps, ",") + " -> " + strings.Join(rs, ",")
}

// resolveAlias finds the stand-in for the missing helper rel.name, or nil.
func (p *Program) resolveAlias(rel, name string, depth int) *types.Func {
	spec, ok := aliasSpecs[rel+"."+name]
	if !ok || depth > 3 {
		return nil
	}
	p.aliasMu.Lock()
	if fn, done := p.aliases[rel+"."+name]; done {
		p.aliasMu.Unlock()
		return fn
	}
	p.aliasMu.Unlock()
	pkg := p.Pkg(rel)
	if pkg == nil {
		return nil
	}
	cands := map[*types.Func]bool{}
	for _, cn := range spec.callers {
		var caller *types.Func
		if i := strings.Index(cn, "."); i >= 0 {
			caller = p.lookupMethod(rel, cn[:i], cn[i+1:], depth+1)
		} else {
			caller = p.lookupFunc(rel, cn, depth+1)
		}
		if caller == nil {
			continue
		}
		decl, dpkg := p.FuncDecl(caller)
		if decl == nil || decl.Body == nil {
			continue
		}
		ast.Inspect(decl.Body, func(n ast.Node) bool {
			call, isCall := n.(*ast.CallExpr)
			if !isCall {
				return true
			}
			calleeOf := func(e ast.Expr) *types.Func {
				switch f := ast.Unparen(e).(type) {
				case *ast.Ident:
					fn, _ := dpkg.TypesInfo.Uses[f].(*types.Func)
					return fn
				case *ast.SelectorExpr:
					fn, _ := dpkg.TypesInfo.Uses[f.Sel].(*types.Func)
					return fn
				}
				return nil
			}
			callee := calleeOf(call.Fun)
			if spec.arg != nil {
				if callee == nil || callee.Pkg() != pkg.Types || CanonName(callee) != spec.arg.callee && callee.Name() != spec.arg.callee {
					// the callee of the argument form may itself be an alias
					if callee == nil || p.lookupFunc(rel, spec.arg.callee, depth+1) != callee {
						return true
					}
				}
				if spec.arg.index < len(call.Args) {
					if fn := calleeOf(call.Args[spec.arg.index]); fn != nil && fn.Pkg() == pkg.Types && !fn.Exported() {
						cands[fn] = true
					}
				}
				return true
			}
			if callee == nil || callee.Pkg() != pkg.Types || callee.Exported() {
				return true
			}
			sig, _ := callee.Type().(*types.Signature)
			if sig == nil {
				return true
			}
			if spec.recv == "" && sig.Recv() != nil {
				return true
			}
			if spec.recv != "" {
				if sig.Recv() == nil {
					return true
				}
				rt := sig.Recv().Type()
				if pt, isP := rt.(*types.Pointer); isP {
					rt = pt.Elem()
				}
				if nt, isN := rt.(*types.Named); !isN || nt.Obj().Name() != spec.recv {
					return true
				}
			}
			if sigString(sig) == spec.sig {
				cands[callee] = true
			}
			return true
		})
	}
	var res *types.Func
	if len(cands) == 1 {
		for fn := range cands {
			res = fn
		}
	}
	p.aliasMu.Lock()
	if p.aliases == nil {
		p.aliases = map[string]*types.Func{}
	}
	p.aliases[rel+"."+name] = res
	p.aliasMu.Unlock()
	if res != nil {
		canonMu.Lock()
		canon[res] = name[strings.LastIndex(name, ".")+1:]
		canonMu.Unlock()
	}
	return res
}

// resolveAllAliases resolves every helper whose canonical name is gone, so that CanonName is complete before rules run.
func (p *Program) resolveAllAliases() {
	for k, spec := range aliasSpecs {
		i := strings.LastIndex(k, ".")
		if spec.recv != "" {
			rel := strings.TrimSuffix(k[:i], "."+spec.recv)
			p.lookupMethod(rel, spec.recv, k[i+1:], 0)
			continue
		}
		p.lookupFunc(k[:i], k[i+1:], 0)
	}
}

// ---------------------------------------------------------------------------------------------
// Unexported types and fields, and the canonicalising reload.
//
// A renamed private type or struct field would make every rule that speaks of it fail as well. Instead of teaching each
// rule a second name, the program is brought back to the canonical spelling before the rules run: after the first load,
// every private function, method, type and field that the rules name and that has lost its name is identified
// structurally (callers and signature for functions; "the type newBatchEncoder returns" and the like for types; position
// and type within the owning struct for fields); if anything was renamed, the identifiers are renamed back in an
// in-memory overlay of the files concerned and the program is loaded again from that overlay. Nothing is written to
// disk; positions keep their lines. A canonical name that is taken by something else, or a structure that no longer
// fits the description, leaves the name as it is - the rules then fail closed as before.

type typeSpec struct {
	how string // "result-elem": *T is result 0 of function fn; "variadic-elem": T is the element type of fn's variadic parameter;
	// "literal-in-method": &T{..} is built inside the method named fn of some type of the package
	fn string
}

var typeSpecs = map[string]typeSpec{
	".encoder":                            {"result-elem", "newBatchEncoder"},
	".batchEncoderSorter":                 {"result-elem", "encoderOrderBy"},
	".encoderCompareFunc":                 {"variadic-elem", "encoderOrderBy"},
	"datacoding/gsm7encoding.gsm7Encoder": {"literal-in-method", "NewEncoder"},
	"datacoding/gsm7encoding.gsm7Decoder": {"literal-in-method", "NewDecoder"},
}

// package-level variables the rules name: identified by their type and, among several of one type, by the size of their
// literal (the default alphabet has more entries than the extension table); the content rules then judge the tables
type varSpec struct {
	typ  string
	rank int // 0: the largest literal of that type, 1: the next ...
}

var varSpecs = map[string]varSpec{
	"datacoding/gsm7encoding.forwardLookup": {"map[rune]byte", 0},
	"datacoding/gsm7encoding.forwardEscape": {"map[rune]byte", 1},
	"datacoding/gsm7encoding.reverseLookup": {"map[byte]rune", 0},
	"datacoding/gsm7encoding.reverseEscape": {"map[byte]rune", 1},
	"datacoding.cmppDataCodingPriority":     {"map[datacoding.CMPPDataCoding]int", 0},
	"datacoding.smppDataCodingPriority":     {"map[datacoding.SMPPDataCoding]int", 0},
}

func (p *Program) resolveVar(rel, name string) *types.Var {
	pkg := p.Pkg(rel)
	if pkg == nil {
		return nil
	}
	if v, _ := pkg.Types.Scope().Lookup(name).(*types.Var); v != nil {
		return v
	}
	spec, ok := varSpecs[rel+"."+name]
	if !ok {
		return nil
	}
	type cand struct {
		v *types.Var
		n int
	}
	var cands []cand
	for _, f := range pkg.Syntax {
		for _, d := range f.Decls {
			gd, isG := d.(*ast.GenDecl)
			if !isG {
				continue
			}
			for _, sp := range gd.Specs {
				vs, isV := sp.(*ast.ValueSpec)
				if !isV {
					continue
				}
				for i, id := range vs.Names {
					v, _ := pkg.TypesInfo.Defs[id].(*types.Var)
					if v == nil || v.Exported() || v.Parent() != pkg.Types.Scope() || privTypeString(v.Type()) != spec.typ {
						continue
					}
					n := 0
					if i < len(vs.Values) {
						if cl, isCL := vs.Values[i].(*ast.CompositeLit); isCL {
							n = len(cl.Elts)
						}
					}
					cands = append(cands, cand{v, n})
				}
			}
		}
	}
	for i := 0; i < len(cands); i++ {
		for j := i + 1; j < len(cands); j++ {
			if cands[j].n > cands[i].n {
				cands[i], cands[j] = cands[j], cands[i]
			}
		}
	}
	// the ranking must be strict where it decides
	if spec.rank < len(cands) {
		if spec.rank+1 < len(cands) && cands[spec.rank].n == cands[spec.rank+1].n {
			return nil
		}
		if spec.rank > 0 && cands[spec.rank].n == cands[spec.rank-1].n {
			return nil
		}
		// all variables of that type must be spoken for, else the description does not fit the package any more
		want := 0
		for k, vs := range varSpecs {
			if strings.HasPrefix(k, rel+".") && vs.typ == spec.typ && strings.Count(k, ".") == strings.Count(rel+".x", ".") {
				want++
			}
		}
		if len(cands) != want {
			return nil
		}
		return cands[spec.rank].v
	}
	return nil
}

type fieldDesc struct{ name, typ string }

// canonical layouts of the structs whose private fields the rules name ("?" stands for a private named type of the module)
var fieldLayouts = map[string][]fieldDesc{
	"packet.Writer":                       {{"buf", "*bytebufferpool.ByteBuffer"}, {"written", "int"}, {"opError", "*?"}},
	"packet.Reader":                       {{"buffer", "*bytes.Buffer"}, {"opError", "*?"}},
	".encoder":                            {{"protocol", "protocol.Protocol"}, {"msgFmt", "datacoding.ProtocolDataCoding"}, {"content", "string"}, {"frameKey", "byte"}, {"isOriginMsgFmt", "bool"}, {"canEncode", "bool"}, {"reason", "string"}, {"data", "[][]byte"}},
	".batchEncoderSorter":                 {{"encoders", "[]*?"}, {"compareFuncs", "[]?"}},
	".BatchDataCodingEncoder":             {{"protocol", "protocol.Protocol"}, {"content", "string"}, {"dataCodings", "[]datacoding.ProtocolDataCoding"}, {"originDataCoding", "datacoding.ProtocolDataCoding"}, {"frameKey", "byte"}},
	"smpp.TLV":                            {{"tag", "uint16"}, {"length", "uint16"}, {"value", "[]byte"}},
	"smgp.Option":                         {{"tag", "uint16"}, {"length", "uint16"}, {"value", "[]byte"}},
	"datacoding/gsm7encoding.gsm7Encoder": {{"packed", "bool"}},
	"datacoding/gsm7encoding.gsm7Decoder": {{"packed", "bool"}},
}

func privTypeString(t types.Type) string {
	return types.TypeString(t, func(p *types.Package) string { return p.Name() })
}

// normType renders a type with every private named type of the module replaced by "?".
func normType(t types.Type) string {
	switch x := t.(type) {
	case *types.Pointer:
		return "*" + normType(x.Elem())
	case *types.Slice:
		return "[]" + normType(x.Elem())
	case *types.Named:
		if x.Obj().Pkg() != nil && InModule(x.Obj().Pkg()) && !x.Obj().Exported() {
			return "?"
		}
	case *types.Alias:
		return normType(types.Unalias(x))
	}
	return privTypeString(t)
}

func (p *Program) resolveType(rel, name string) *types.TypeName {
	pkg := p.Pkg(rel)
	if pkg == nil {
		return nil
	}
	if tn, _ := pkg.Types.Scope().Lookup(name).(*types.TypeName); tn != nil {
		return tn
	}
	spec, ok := typeSpecs[rel+"."+name]
	if !ok {
		return nil
	}
	named := func(t types.Type) *types.TypeName {
		if pt, isP := t.(*types.Pointer); isP {
			t = pt.Elem()
		}
		if nt, isN := t.(*types.Named); isN && nt.Obj().Pkg() == pkg.Types && !nt.Obj().Exported() {
			return nt.Obj()
		}
		return nil
	}
	switch spec.how {
	case "result-elem", "variadic-elem":
		fn := p.lookupFunc(rel, spec.fn, 1)
		if fn == nil {
			return nil
		}
		sig := fn.Type().(*types.Signature)
		if spec.how == "result-elem" && sig.Results().Len() >= 1 {
			return named(sig.Results().At(0).Type())
		}
		if spec.how == "variadic-elem" && sig.Variadic() {
			if sl, isS := sig.Params().At(sig.Params().Len() - 1).Type().(*types.Slice); isS {
				return named(sl.Elem())
			}
		}
	case "literal-in-method":
		var found []*types.TypeName
		for _, f := range pkg.Syntax {
			for _, d := range f.Decls {
				fd, isF := d.(*ast.FuncDecl)
				if !isF || fd.Recv == nil || fd.Name.Name != spec.fn || fd.Body == nil {
					continue
				}
				ast.Inspect(fd.Body, func(n ast.Node) bool {
					if cl, isCL := n.(*ast.CompositeLit); isCL {
						if tn := named(pkg.TypesInfo.TypeOf(cl)); tn != nil {
							if _, isStruct := tn.Type().Underlying().(*types.Struct); isStruct {
								found = append(found, tn)
							}
						}
					}
					return true
				})
			}
		}
		if len(found) == 1 {
			return found[0]
		}
	}
	return nil
}

// renamePlan lists every object that has to get its canonical name back.
func (p *Program) renamePlan() map[types.Object]string {
	plan := map[types.Object]string{}
	taken := func(pkg *types.Package, name string) bool { return pkg.Scope().Lookup(name) != nil }
	// functions and methods (resolved by resolveAllAliases)
	p.aliasMu.Lock()
	for k, fn := range p.aliases {
		if fn == nil {
			continue
		}
		name := k[strings.LastIndex(k, ".")+1:]
		if fn.Name() == name {
			continue
		}
		if sig, _ := fn.Type().(*types.Signature); sig != nil && sig.Recv() == nil && taken(fn.Pkg(), name) {
			continue
		}
		plan[fn] = name
	}
	p.aliasMu.Unlock()
	// types
	for k := range typeSpecs {
		i := strings.LastIndex(k, ".")
		rel, name := k[:i], k[i+1:]
		if tn := p.resolveType(rel, name); tn != nil && tn.Name() != name && !taken(tn.Pkg(), name) {
			plan[tn] = name
		}
	}
	// package-level variables
	for k := range varSpecs {
		i := strings.LastIndex(k, ".")
		rel, name := k[:i], k[i+1:]
		if v := p.resolveVar(rel, name); v != nil && v.Name() != name && !taken(v.Pkg(), name) {
			plan[v] = name
		}
	}
	// fields
	for k, layout := range fieldLayouts {
		i := strings.LastIndex(k, ".")
		tn := p.resolveType(k[:i], k[i+1:])
		if tn == nil {
			continue
		}
		st, _ := tn.Type().Underlying().(*types.Struct)
		if st == nil || st.NumFields() != len(layout) {
			continue
		}
		fits := true
		for j, fd := range layout {
			if normType(st.Field(j).Type()) != fd.typ {
				fits = false
			}
		}
		if !fits {
			continue
		}
		names := map[string]bool{}
		for j := 0; j < st.NumFields(); j++ {
			names[st.Field(j).Name()] = true
		}
		for j, fd := range layout {
			f := st.Field(j)
			if f.Name() != fd.name && !names[fd.name] {
				plan[f] = fd.name
			}
		}
	}
	return plan
}

// renameOverlay rewrites the identifiers of the plan in the files that mention them; absolute path -> new content.
func (p *Program) renameOverlay(plan map[types.Object]string, base map[string][]byte, read func(string) ([]byte, error)) (map[string][]byte, error) {
	type edit struct {
		off, n int
		s      string
	}
	edits := map[string][]edit{}
	for _, pkg := range p.Pkgs {
		add := func(id *ast.Ident, obj types.Object) {
			if obj == nil {
				return
			}
			name, ok := plan[obj]
			if !ok {
				// a method or field of an instantiated / embedded origin
				if v, isV := obj.(*types.Var); isV && v.Origin() != v {
					name, ok = plan[v.Origin()]
				}
				if f, isF := obj.(*types.Func); isF && f.Origin() != f {
					name, ok = plan[f.Origin()]
				}
			}
			if !ok {
				return
			}
			pos := p.Fset.Position(id.Pos())
			edits[pos.Filename] = append(edits[pos.Filename], edit{pos.Offset, len(id.Name), name})
		}
		for id, obj := range pkg.TypesInfo.Defs {
			add(id, obj)
		}
		for id, obj := range pkg.TypesInfo.Uses {
			add(id, obj)
		}
	}
	out := map[string][]byte{}
	for k, v := range base {
		out[k] = v
	}
	for file, es := range edits {
		src, ok := out[file]
		if !ok {
			b, err := read(file)
			if err != nil {
				return nil, err
			}
			src = b
		}
		// apply from the end; identical edits (Defs and Uses never overlap) are kept once
		seen := map[int]bool{}
		var uniq []edit
		for _, e := range es {
			if !seen[e.off] {
				seen[e.off] = true
				uniq = append(uniq, e)
			}
		}
		for i := 0; i < len(uniq); i++ {
			for j := i + 1; j < len(uniq); j++ {
				if uniq[j].off > uniq[i].off {
					uniq[i], uniq[j] = uniq[j], uniq[i]
				}
			}
		}
		buf := append([]byte{}, src...)
		for _, e := range uniq {
			if e.off < 0 || e.off+e.n > len(buf) {
				continue
			}
			buf = append(buf[:e.off], append([]byte(e.s), buf[e.off+e.n:]...)...)
		}
		out[file] = buf
	}
	return out, nil
}
