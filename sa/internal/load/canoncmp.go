package load

import (
	"go/token"

	"golang.org/x/tools/go/ssa"
	"golang.org/x/tools/go/ssa/ssautil"
)

// A comparison can be written either way round (`len(data) < 12` or `12 > len(data)`, `i < n` or `n > i`); the two spell
// the same predicate. The rules look at comparisons in SSA form in very many places, so instead of teaching each of them
// both spellings the SSA program is brought to one orientation right after it is built: the operand that "varies" goes
// left, the bound goes right - constants rightmost; a loop-carried value (phi) before a length, a length before a plain
// value, a plain value before a call result, that before an arithmetic expression. The operator is mirrored when the
// operands are exchanged, so the predicate is unchanged; operands of equal rank keep their order. The orientation is a
// function of the two operands alone, hence the same whichever way the source spells the comparison.
func cmpRank(v ssa.Value) int {
	for {
		switch x := v.(type) {
		case *ssa.Convert:
			v = x.X
			continue
		case *ssa.ChangeType:
			v = x.X
			continue
		}
		break
	}
	switch x := v.(type) {
	case *ssa.Const:
		return 9
	case *ssa.Phi:
		return 0
	case *ssa.Call:
		if b, ok := x.Call.Value.(*ssa.Builtin); ok && (b.Name() == "len" || b.Name() == "cap") {
			return 1
		}
		return 3
	case *ssa.Parameter, *ssa.UnOp, *ssa.Field, *ssa.FieldAddr, *ssa.Index, *ssa.IndexAddr, *ssa.Extract, *ssa.Lookup, *ssa.FreeVar, *ssa.Global:
		return 2
	case *ssa.BinOp:
		// the stepped counter of a range loop (`i+1` of the loop-carried i, tested against the length) is loop-carried too
		if x.Op == token.ADD || x.Op == token.SUB {
			_, xPhi := x.X.(*ssa.Phi)
			_, yK := x.Y.(*ssa.Const)
			if xPhi && yK {
				return 0
			}
		}
		return 4
	}
	return 5
}

var mirrorOp = map[token.Token]token.Token{token.LSS: token.GTR, token.GTR: token.LSS, token.LEQ: token.GEQ, token.GEQ: token.LEQ, token.EQL: token.EQL, token.NEQ: token.NEQ}

func canonicaliseComparisons(prog *ssa.Program) {
	for fn := range ssautil.AllFunctions(prog) {
		if fn.Pkg == nil || !InModule(fn.Pkg.Pkg) {
			continue
		}
		for _, b := range fn.Blocks {
			for _, ins := range b.Instrs {
				bo, ok := ins.(*ssa.BinOp)
				if !ok {
					continue
				}
				m, isCmp := mirrorOp[bo.Op]
				if !isCmp {
					continue
				}
				if cmpRank(bo.X) > cmpRank(bo.Y) {
					bo.X, bo.Y, bo.Op = bo.Y, bo.X, m
				}
			}
		}
	}
}
