package wire

import (
	"go/types"
	"sort"

	"verifsa/internal/load"
)

// PDU is one type with an IEncode/IDecode pair.
type PDU struct {
	Named          *types.Named
	Rel            string // package path relative to the module
	Name           string
	FullPDU        bool // implements the complete sms.PDU interface
	Methods        map[string]*types.Func
	Enc, Dec       *Seq
	EncErr, DecErr error
}

func (p *PDU) Key() string { return p.Rel + "." + p.Name }

// FindPDUs enumerates every named type of the module whose pointer method set has
// IEncode() ([]byte, error) and IDecode([]byte) error, and extracts both wire sequences.
func FindPDUs(prog *load.Program) []*PDU {
	var iface *types.Interface
	if root := prog.Pkg(""); root != nil {
		if tn, ok := root.Types.Scope().Lookup("PDU").(*types.TypeName); ok {
			iface, _ = tn.Type().Underlying().(*types.Interface)
		}
	}
	x := &Extractor{Prog: prog}
	var out []*PDU
	for _, pkg := range prog.Pkgs {
		scope := pkg.Types.Scope()
		for _, name := range scope.Names() {
			tn, ok := scope.Lookup(name).(*types.TypeName)
			if !ok || tn.IsAlias() {
				continue
			}
			named, ok := tn.Type().(*types.Named)
			if !ok {
				continue
			}
			if _, isStruct := named.Underlying().(*types.Struct); !isStruct {
				continue
			}
			ms := types.NewMethodSet(types.NewPointer(named))
			methods := map[string]*types.Func{}
			for i := 0; i < ms.Len(); i++ {
				if fn, ok := ms.At(i).Obj().(*types.Func); ok && fn.Pkg() == pkg.Types {
					methods[fn.Name()] = fn
				}
			}
			enc, dec := methods["IEncode"], methods["IDecode"]
			if enc == nil || dec == nil {
				continue
			}
			p := &PDU{Named: named, Rel: load.Rel(pkg.PkgPath), Name: name, Methods: methods}
			if iface != nil {
				p.FullPDU = types.Implements(types.NewPointer(named), iface)
			}
			p.Enc, p.EncErr = x.Extract(enc, true)
			p.Dec, p.DecErr = x.Extract(dec, false)
			out = append(out, p)
		}
	}
	sort.Slice(out, func(i, j int) bool { return out[i].Key() < out[j].Key() })
	return out
}
