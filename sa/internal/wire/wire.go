// Package wire implements engine E1: it turns the body of an IEncode / IDecode method
// (and the module-local helpers it calls with the reader/writer) into an ordered sequence of
// wire operations by a typed walk over the AST. Nothing is executed; every argument is
// resolved to a path of struct-field objects (*types.Var) rooted at the method receiver.
// Constructs the walker does not understand become OPAQUE operations, which every consumer
// treats as "undecided" (fail closed).
package wire

import (
	"fmt"
	"go/ast"
	"go/constant"
	"go/token"
	"go/types"
	"sort"
	"strings"

	"golang.org/x/tools/go/packages"

	"verifsa/internal/load"
)

type Kind int

const (
	INT    Kind = iota // big-endian unsigned integer of Width octets
	FIX                // exactly Width octets (text: NUL padded / trimmed; raw: every octet significant)
	VAR                // variable number of octets given by LenField, or by len(Field) itself on the write side
	CSTR               // NUL terminated
	LOOP               // Body repeated; Count field (read side / indexed write) or range over the list (write side)
	TAIL               // optional-parameter container to the end of the PDU
	OPAQUE             // not understood
)

func (k Kind) String() string {
	return [...]string{"INT", "FIX", "VAR", "CSTR", "LOOP", "TAIL", "OPAQUE"}[k]
}

// Elem is one step of a field path.
type Elem struct {
	Field *types.Var // struct field (nil for an index step)
	Index int        // constant array index, -1 if none
	Each  bool       // "every element" (loop variable / range value)
}

type Root struct {
	Name string
	Recv bool
}

// Path is a field path rooted at the receiver (or at a helper-local struct before re-rooting).
type Path struct {
	Root  *Root
	Elems []Elem
}

func (p Path) IsZero() bool { return p.Root == nil }

func (p Path) String() string {
	if p.Root == nil {
		return "<none>"
	}
	var sb strings.Builder
	if !p.Root.Recv {
		sb.WriteString("«" + p.Root.Name + "»")
	}
	for i, e := range p.Elems {
		switch {
		case e.Field != nil:
			if i > 0 || !p.Root.Recv {
				sb.WriteString(".")
			}
			sb.WriteString(e.Field.Name())
		case e.Each:
			sb.WriteString("[*]")
		default:
			fmt.Fprintf(&sb, "[%d]", e.Index)
		}
	}
	if sb.Len() == 0 {
		return "(receiver)"
	}
	return sb.String()
}

func (p Path) Equal(q Path) bool {
	if p.Root != q.Root && !(p.Root != nil && q.Root != nil && p.Root.Recv && q.Root.Recv) {
		return false
	}
	if len(p.Elems) != len(q.Elems) {
		return false
	}
	for i := range p.Elems {
		a, b := p.Elems[i], q.Elems[i]
		if a == b {
			continue
		}
		// the same field reached through a pointer conversion between two struct types of identical layout
		// ((*PduTerminate)(p).IDecode(data) fills PduTerminateResp's fields): same name, same type, same kind of step
		if a.Field != nil && b.Field != nil && a.Index == b.Index && a.Each == b.Each && a.Field.Name() == b.Field.Name() && types.Identical(a.Field.Type(), b.Field.Type()) {
			continue
		}
		return false
	}
	return true
}

func (p Path) extend(e Elem) Path {
	n := Path{Root: p.Root, Elems: make([]Elem, len(p.Elems)+1)}
	copy(n.Elems, p.Elems)
	n.Elems[len(p.Elems)] = e
	return n
}

// Last returns the last struct field of the path (nil if none).
func (p Path) Last() *types.Var {
	for i := len(p.Elems) - 1; i >= 0; i-- {
		if p.Elems[i].Field != nil {
			return p.Elems[i].Field
		}
	}
	return nil
}

// Op is one wire operation.
type Op struct {
	Kind  Kind
	Width int    // INT: octets; FIX: octets
	Trim  bool   // read side: value cut at first NUL; write side: value NUL padded (text slot)
	Raw   bool   // read side: non-trimming primitive
	Prim  string // primitive that produced the op (WriteFixedLenString, ReadCStringN, binary.Write, ...)
	Field Path   // the field written / the field the value read is stored into
	Convs []string
	// Transform: value transformation between field and wire ("hex.EncodeToString", "hex.DecodeString")
	Transform  string
	LenField   Path // VAR: the field holding the length (zero Path: length is len(Field) itself)
	LenSelf    bool // VAR on the write side: as many octets as the value has
	Count      Path // LOOP: count field (zero if the loop ranges over the list)
	Over       Path // LOOP: the list ranged over / indexed
	Body       []*Op
	Container  string // TAIL: container type
	Via        string // TAIL: parser / serializer function
	Const      constant.Value
	Synthetic  string // "length-prefix"
	Order      string // byte order for binary.Write based ops ("big" / "other")
	Pos        token.Pos
	Why        string // OPAQUE: reason
	NarrowFrom string // write side: explicit narrowing conversion applied to a wider field type
}

func (o *Op) String() string {
	switch o.Kind {
	case INT:
		if o.Synthetic != "" {
			return fmt.Sprintf("U%d(<%s>)", o.Width*8, o.Synthetic)
		}
		return fmt.Sprintf("U%d(%s)", o.Width*8, o.Field)
	case FIX:
		m := "text"
		if o.Raw {
			m = "raw"
		}
		t := ""
		if o.Transform != "" {
			t = "," + o.Transform
		}
		return fmt.Sprintf("FIX(%d,%s,%s%s)", o.Width, o.Field, m, t)
	case VAR:
		l := "len(self)"
		if !o.LenField.IsZero() {
			l = o.LenField.String()
		}
		return fmt.Sprintf("VAR(%s,%s)", l, o.Field)
	case CSTR:
		return fmt.Sprintf("CSTR(%s)", o.Field)
	case LOOP:
		var b []string
		for _, x := range o.Body {
			b = append(b, x.String())
		}
		c := "range " + o.Over.String()
		if !o.Count.IsZero() {
			c = o.Count.String()
		}
		return fmt.Sprintf("LOOP(%s){%s}", c, strings.Join(b, " "))
	case TAIL:
		return fmt.Sprintf("TAIL(%s,%s via %s)", o.Container, o.Field, o.Via)
	}
	return "OPAQUE(" + o.Why + ")"
}

// Ret describes one return statement of the analysed method.
type Ret struct {
	Kind     string // encode: "terminal" ; decode: "reader-error" | "nil" | "guard-error" | "ternary" | "other"
	Pos      token.Pos
	OpsSoFar int // number of top-level ops emitted before this return
	Detail   string
}

// Assign is an assignment to a receiver field inside IEncode (normalisation / length word).
type Assign struct {
	Field     Path
	Expr      ast.Expr
	Info      *types.Info
	Cond      ast.Expr // enclosing if condition (nil if unconditional)
	Pos       token.Pos
	OpsBefore int // number of top-level wire ops emitted before this assignment
}

// Seq is the wire sequence of one method.
type Seq struct {
	Fn              *types.Func
	Decl            *ast.FuncDecl
	Pkg             *packages.Package
	Recv            *types.Var
	Ops             []*Op
	Terminal        string // encode: Bytes | BytesWithLength | ""
	Guard           int64  // decode: constant of the `len(data) < K` guard, -1 if none
	GuardPos        token.Pos
	Returns         []Ret
	Assigns         []Assign // encode-side receiver assignments
	ReleaseDeferred bool
	Opaque          []string
}

// Flat returns the logical wire image: for a length-prefixing terminal the synthetic length word is prepended.
func (s *Seq) Flat() []*Op {
	if s.Terminal == "BytesWithLength" {
		return append([]*Op{{Kind: INT, Width: 4, Synthetic: "length-prefix", Prim: "BytesWithLength", Order: "big"}}, s.Ops...)
	}
	return s.Ops
}

func (s *Seq) String() string {
	var b []string
	for _, o := range s.Flat() {
		b = append(b, o.String())
	}
	return strings.Join(b, " ")
}

// ---------------------------------------------------------------------------------------------
// symbolic values

type val interface{}

type vWriter struct{}
type vReader struct{}
type vPath struct {
	P          Path
	Convs      []string
	Transform  string
	NarrowFrom string
}
type vConst struct{ V constant.Value }
type vRead struct {
	Op    *Op
	Convs []string
}
type vBytesSeq struct{ Ops []*Op }
type vLocalBuf struct{ ops *[]*Op }

// vScratch: b := make([]byte, N) filled by order.PutUintK(b[o:], field) calls; written out as a whole it is the integer
// fields in offset order (the slots must tile [0, N) exactly).
type vScratch struct {
	size  int64
	slots map[int64]*Op
}
type vStruct struct{ root *Root }
type litField struct {
	f    *types.Var
	v    val
	expr ast.Expr
}
type vStructLit struct{ fields []litField }
type vLen struct{ Of Path }
type vIndex struct{}
type vRest struct{}
type vTail struct{ Op *Op }
type vTailBytes struct {
	P         Path
	Container string
	Via       string
}
type vTuple []val
type vErr struct{ kind, detail string } // reader-error | nil | named error | ternary
type vMake struct{ size, capv val }
type vOpaque struct{ why string }
type vMethodVal struct{ sel *ast.SelectorExpr }

// vTerm is one component of the writer terminal call w.Bytes() / w.BytesWithLength() kept in a local.
type vTerm struct {
	name string
	idx  int
}

// ---------------------------------------------------------------------------------------------

type frame struct {
	info  *types.Info
	pkg   *packages.Package
	ret   val
	done  bool
	named []types.Object // named results of an inlined helper (a bare return answers their current values)
}

type Extractor struct {
	Prog *load.Program
}

type walker struct {
	x          *Extractor
	env        map[types.Object]val
	frames     []*frame
	ops        *[]*Op
	seq        *Seq
	encode     bool
	depth      int
	condStack  []ast.Expr
	made       map[string]Path // decode: list field -> count field it was allocated with (p.L = make([]T, p.C))
	errFirst   bool            // decode: `if readerErr != nil { return readerErr }` has been passed at top level
	retBytes   bool            // ExtractBytesMethod: the octets returned are the wire image
	resultRoot *Root           // ExtractFunc, decode: a struct returned as a literal is stored under this root
	termAt     int             // encode: number of wire ops emitted when w.Bytes()/BytesWithLength() was evaluated into locals (-1: not yet)
}

func (w *walker) info() *types.Info { return w.frames[len(w.frames)-1].info }

func (w *walker) emit(o *Op) *Op { *w.ops = append(*w.ops, o); return o }

func (w *walker) opaque(pos token.Pos, why string) *Op {
	w.seq.Opaque = append(w.seq.Opaque, fmt.Sprintf("%s: %s", w.x.Prog.Pos(pos), why))
	return w.emit(&Op{Kind: OPAQUE, Why: why, Pos: pos})
}

// Extract analyses one method (IEncode when encode is true, IDecode otherwise).
func (x *Extractor) Extract(fn *types.Func, encode bool) (*Seq, error) {
	decl, pkg := x.Prog.FuncDecl(fn)
	if decl == nil || decl.Body == nil {
		return nil, fmt.Errorf("no declaration for %s", fn.FullName())
	}
	seq := &Seq{Fn: fn, Decl: decl, Pkg: pkg, Guard: -1}
	w := &walker{x: x, env: map[types.Object]val{}, seq: seq, encode: encode}
	w.ops = &seq.Ops
	w.frames = []*frame{{info: pkg.TypesInfo, pkg: pkg}}
	if decl.Recv != nil && len(decl.Recv.List) == 1 && len(decl.Recv.List[0].Names) == 1 {
		obj := pkg.TypesInfo.Defs[decl.Recv.List[0].Names[0]]
		if v, ok := obj.(*types.Var); ok {
			seq.Recv = v
			w.env[v] = vPath{P: Path{Root: &Root{Name: v.Name(), Recv: true}}}
		}
	}
	w.block(decl.Body.List)
	return seq, nil
}

// ExtractFunc analyses a package-level helper whose parameters are a packet writer or reader and values (headers): the
// writer / reader parameters are the wire, every struct parameter is the root of its own field paths.
func (x *Extractor) ExtractFunc(fn *types.Func, encode bool) (*Seq, error) {
	decl, pkg := x.Prog.FuncDecl(fn)
	if decl == nil || decl.Body == nil {
		return nil, fmt.Errorf("no declaration for %s", fn.FullName())
	}
	seq := &Seq{Fn: fn, Decl: decl, Pkg: pkg, Guard: -1}
	w := &walker{x: x, env: map[types.Object]val{}, seq: seq, encode: encode}
	w.ops = &seq.Ops
	w.frames = []*frame{{info: pkg.TypesInfo, pkg: pkg}}
	for _, f := range decl.Type.Params.List {
		for _, n := range f.Names {
			obj, _ := pkg.TypesInfo.Defs[n].(*types.Var)
			if obj == nil {
				continue
			}
			t := obj.Type()
			if pt, ok := t.(*types.Pointer); ok {
				if nt := namedOf(pt.Elem()); nt != nil && nt.Obj().Pkg() != nil && nt.Obj().Pkg().Path() == load.Module+"/packet" {
					switch nt.Obj().Name() {
					case "Writer":
						w.env[obj] = vWriter{}
						continue
					case "Reader":
						w.env[obj] = vReader{}
						continue
					}
				}
			}
			if derefStruct(t) != nil {
				w.env[obj] = vPath{P: Path{Root: &Root{Name: obj.Name(), Recv: true}}}
			}
		}
	}
	if decl.Type.Results != nil {
		for _, f := range decl.Type.Results.List {
			for _, n := range f.Names {
				if obj := pkg.TypesInfo.Defs[n]; obj != nil {
					if _, ok := obj.Type().Underlying().(*types.Struct); ok {
						w.env[obj] = vStruct{root: &Root{Name: n.Name}}
					}
				}
			}
		}
	}
	if !encode {
		w.resultRoot = &Root{Name: "result"}
	}
	w.block(decl.Body.List)
	return seq, nil
}

func (w *walker) block(list []ast.Stmt) {
	for _, s := range list {
		w.stmt(s)
		if w.frames[len(w.frames)-1].done {
			return
		}
	}
}

func isBlank(e ast.Expr) bool { id, ok := e.(*ast.Ident); return ok && id.Name == "_" }

func (w *walker) stmt(s ast.Stmt) {
	switch s := s.(type) {
	case *ast.ExprStmt:
		v := w.eval(s.X)
		if o, ok := v.(vOpaque); ok {
			w.opaque(s.Pos(), o.why)
		}
	case *ast.DeclStmt:
		gd, ok := s.Decl.(*ast.GenDecl)
		if !ok || gd.Tok != token.VAR {
			return
		}
		for _, sp := range gd.Specs {
			vs := sp.(*ast.ValueSpec)
			for i, n := range vs.Names {
				obj := w.info().Defs[n]
				if obj == nil {
					continue
				}
				if i < len(vs.Values) {
					w.env[obj] = w.eval(vs.Values[i])
					continue
				}
				if _, ok := obj.Type().Underlying().(*types.Struct); ok {
					w.env[obj] = vStruct{root: &Root{Name: n.Name}}
				} else if arr, ok := obj.Type().Underlying().(*types.Array); ok && arr.Len() >= 1 && arr.Len() <= 16 {
					// var seq [3]uint32: a local array filled element by element (seq[i] = read) and stored as a whole
					t := make(vTuple, arr.Len())
					for k := range t {
						t[k] = vConst{}
					}
					w.env[obj] = t
				} else {
					w.env[obj] = vConst{}
				}
			}
		}
	case *ast.AssignStmt:
		w.assign(s)
	case *ast.DeferStmt:
		if sel, ok := s.Call.Fun.(*ast.SelectorExpr); ok {
			switch w.eval(sel.X).(type) {
			case vWriter, vReader:
				if sel.Sel.Name == "Release" {
					w.seq.ReleaseDeferred = true
					return
				}
			}
		}
		w.opaque(s.Pos(), "defer of an unknown call")
	case *ast.IfStmt:
		w.ifStmt(s)
	case *ast.ForStmt:
		w.forStmt(s)
	case *ast.RangeStmt:
		w.rangeStmt(s)
	case *ast.ReturnStmt:
		w.returnStmt(s)
	case *ast.BlockStmt:
		w.block(s.List)
	case *ast.IncDecStmt, *ast.EmptyStmt:
	default:
		w.opaque(s.Pos(), fmt.Sprintf("unsupported statement %T", s))
	}
}

func (w *walker) assign(s *ast.AssignStmt) {
	var rhs []val
	if len(s.Rhs) == 1 && len(s.Lhs) > 1 {
		v := w.eval(s.Rhs[0])
		if t, ok := v.(vTuple); ok && len(t) == len(s.Lhs) {
			rhs = t
		} else {
			if o, ok := v.(vOpaque); ok {
				w.opaque(s.Pos(), o.why)
			}
			for range s.Lhs {
				rhs = append(rhs, vOpaque{"component of an uninterpreted tuple"})
			}
		}
	} else {
		for _, r := range s.Rhs {
			rhs = append(rhs, w.eval(r))
		}
	}
	for i, l := range s.Lhs {
		if i >= len(rhs) {
			break
		}
		v := rhs[i]
		if isBlank(l) {
			if o, ok := v.(vOpaque); ok {
				w.opaque(s.Pos(), o.why)
			}
			continue
		}
		if id, ok := l.(*ast.Ident); ok {
			obj := w.info().Defs[id]
			if obj == nil {
				obj = w.info().Uses[id]
			}
			if obj != nil {
				if _, isPath := w.env[obj].(vPath); isPath && w.env[obj].(vPath).P.Root.Recv && len(w.env[obj].(vPath).P.Elems) == 0 {
					w.opaque(s.Pos(), "assignment to the receiver variable")
					continue
				}
				// dests := make([]T, p.Count) in a decoder: a local list that is filled element by element and assigned to its
				// field afterwards; it gets a provisional root that the assignment re-roots
				if mk, isMk := v.(vMake); isMk && !w.encode && s.Tok == token.DEFINE {
					if _, isSlice := obj.Type().Underlying().(*types.Slice); isSlice && !isByteSlice(obj.Type()) {
						var cnt Path
						switch sz := mk.size.(type) {
						case vPath:
							cnt = sz.P
						case vRead:
							cnt = sz.Op.Field
						case vConst:
							// make([]T, 0, p.Count): an empty list with room for Count entries, filled by append
							if sz.V != nil && constant.Sign(sz.V) == 0 {
								switch cp := mk.capv.(type) {
								case vPath:
									cnt = cp.P
								case vRead:
									cnt = cp.Op.Field
								}
							}
						}
						if !cnt.IsZero() {
							lp := Path{Root: &Root{Name: "local:" + id.Name}}
							if w.made == nil {
								w.made = map[string]Path{}
							}
							w.made[lp.String()] = cnt
							w.env[obj] = vPath{P: lp}
							continue
						}
					}
				}
				// dests = append(dests, <value read>) on such a local list: one more element
				if ap, isAp := v.(vAppend); isAp && !w.encode {
					if cur, isPath := w.env[obj].(vPath); isPath && cur.P.Root != nil && strings.HasPrefix(cur.P.Root.Name, "local:") && len(cur.P.Elems) == 0 && ap.list.Equal(cur.P) {
						w.store(cur.P.extend(Elem{Each: true, Index: -1}), ap.elem, s.Rhs[i], s.Pos())
						continue
					}
				}
				// append(list, x) where list is a local alias is not interpreted
				w.env[obj] = v
				if o, ok := v.(vOpaque); ok && s.Tok == token.DEFINE {
					_ = o // kept in env; reported only if it reaches the wire
				}
				continue
			}
		}
		// seq[k] = v on a local array (k a constant here: a literal, or the index of a loop being unrolled)
		if ix, isIx := l.(*ast.IndexExpr); isIx {
			if id, isID := ast.Unparen(ix.X).(*ast.Ident); isID {
				if obj := w.info().Uses[id]; obj != nil {
					if tup, isTup := w.env[obj].(vTuple); isTup {
						if _, isArr := obj.Type().Underlying().(*types.Array); isArr {
							if kv, isK := w.eval(ix.Index).(vConst); isK && kv.V != nil && kv.V.Kind() == constant.Int {
								if k, exact := constant.Int64Val(kv.V); exact && k >= 0 && int(k) < len(tup) {
									nt := append(vTuple{}, tup...)
									nt[k] = v
									w.env[obj] = nt
									continue
								}
							}
						}
					}
				}
			}
		}
		lv := w.eval(l)
		lp, ok := lv.(vPath)
		if !ok {
			w.opaque(s.Pos(), "assignment to an uninterpreted location")
			continue
		}
		w.store(lp.P, v, s.Rhs[min(i, len(s.Rhs)-1)], s.Pos())
	}
}

// scratchOps: the integer fields of a scratch slice in offset order; false unless they tile it exactly.
func scratchOps(v vScratch) ([]*Op, bool) {
	var offs []int64
	for o := range v.slots {
		offs = append(offs, o)
	}
	sort.Slice(offs, func(i, j int) bool { return offs[i] < offs[j] })
	next := int64(0)
	var out []*Op
	for _, o := range offs {
		if o != next {
			return nil, false
		}
		next += int64(v.slots[o].Width)
		out = append(out, v.slots[o])
	}
	return out, next == v.size
}

// ExtractBytesMethod analyses a method that returns the octets of its receiver (Header.Bytes): the octets returned - a
// local buffer filled by binary.Write, or a scratch slice filled by PutUintN - are the wire image.
func (x *Extractor) ExtractBytesMethod(fn *types.Func) (*Seq, error) {
	decl, pkg := x.Prog.FuncDecl(fn)
	if decl == nil || decl.Body == nil {
		return nil, fmt.Errorf("no declaration for %s", fn.FullName())
	}
	seq := &Seq{Fn: fn, Decl: decl, Pkg: pkg, Guard: -1}
	w := &walker{x: x, env: map[types.Object]val{}, seq: seq, encode: true, retBytes: true}
	w.ops = &seq.Ops
	w.frames = []*frame{{info: pkg.TypesInfo, pkg: pkg}}
	if decl.Recv != nil && len(decl.Recv.List) == 1 && len(decl.Recv.List[0].Names) == 1 {
		if v, ok := pkg.TypesInfo.Defs[decl.Recv.List[0].Names[0]].(*types.Var); ok {
			seq.Recv = v
			w.env[v] = vPath{P: Path{Root: &Root{Name: v.Name(), Recv: true}}}
		}
	}
	w.block(decl.Body.List)
	return seq, nil
}

// store binds a value to a field path.
func (w *walker) store(p Path, v val, rhsExpr ast.Expr, pos token.Pos) {
	if w.encode && p.Root != nil && p.Root.Recv {
		// IEncode assigning to its receiver: normalisation / length word; judged by C02-LEN-HAND and C11-NORMALIZE
		var cond ast.Expr
		if len(w.condStack) > 0 {
			cond = w.condStack[len(w.condStack)-1]
		}
		w.seq.Assigns = append(w.seq.Assigns, Assign{Field: p, Expr: rhsExpr, Info: w.info(), Cond: cond, Pos: pos, OpsBefore: len(w.seq.Ops)})
		return
	}
	switch v := v.(type) {
	case vRead:
		if !v.Op.Field.IsZero() {
			w.opaque(pos, "value of one read stored twice")
			return
		}
		v.Op.Field = p
		v.Op.Convs = append(v.Op.Convs, v.Convs...)
	case vTuple:
		for i, e := range v {
			w.store(p.extend(Elem{Index: i}), e, rhsExpr, pos)
		}
	case vStruct:
		// re-root every op that was produced into the helper-local struct
		w.reroot(w.seq.Ops, v.root, p)
	case vStructLit:
		for _, lf := range v.fields {
			w.store(p.extend(Elem{Field: lf.f, Index: -1}), lf.v, lf.expr, pos)
		}
	case vTail:
		v.Op.Field = p
	case vMake:
		// p.List = make([]T, p.Count): allocation only (C03-ALLOC looks at it on SSA); the count is remembered so that a
		// later `for i := range p.List` is known to run p.Count times
		if w.made == nil {
			w.made = map[string]Path{}
		}
		switch sz := v.size.(type) {
		case vPath:
			w.made[p.String()] = sz.P
		case vRead:
			if !sz.Op.Field.IsZero() {
				w.made[p.String()] = sz.Op.Field
			}
		}
	case vOpaque:
		w.opaque(pos, "field "+p.String()+" assigned from "+v.why)
	case vPath:
		// p.List = dests: the local list filled above becomes the field
		if !w.encode && v.P.Root != nil && strings.HasPrefix(v.P.Root.Name, "local:") && len(v.P.Elems) == 0 {
			if cnt, ok := w.made[v.P.String()]; ok {
				w.made[p.String()] = cnt
			}
			w.reroot(w.seq.Ops, v.P.Root, p)
			return
		}
		if !w.encode {
			w.opaque(pos, fmt.Sprintf("field %s assigned from a non-read value %T", p, v))
		}
	default:
		if !w.encode {
			// decode: a field assigned from something that is not a read (e.g. append of a read value)
			if ap, ok := v.(vAppend); ok {
				w.store(p.extend(Elem{Each: true, Index: -1}), ap.elem, rhsExpr, pos)
				return
			}
			w.opaque(pos, fmt.Sprintf("field %s assigned from a non-read value %T", p, v))
		}
	}
}

type vAppend struct {
	list Path
	elem val
}

func (w *walker) reroot(ops []*Op, from *Root, to Path) {
	fix := func(p Path) Path {
		if p.Root == from {
			n := Path{Root: to.Root}
			n.Elems = append(append([]Elem{}, to.Elems...), p.Elems...)
			return n
		}
		return p
	}
	for _, o := range ops {
		o.Field, o.LenField, o.Count, o.Over = fix(o.Field), fix(o.LenField), fix(o.Count), fix(o.Over)
		w.reroot(o.Body, from, to)
	}
}

// orient returns the comparison with the operand for which wantLeft holds on the left (`12 > len(data)` is read as
// `len(data) < 12`, `n > i` as `i < n`): the two spellings state the same predicate.
func orient(be *ast.BinaryExpr, wantLeft func(ast.Expr) bool) *ast.BinaryExpr {
	mirror := map[token.Token]token.Token{token.LSS: token.GTR, token.GTR: token.LSS, token.LEQ: token.GEQ, token.GEQ: token.LEQ, token.EQL: token.EQL, token.NEQ: token.NEQ}
	m, isCmp := mirror[be.Op]
	if !isCmp || wantLeft(ast.Unparen(be.X)) || !wantLeft(ast.Unparen(be.Y)) {
		return be
	}
	return &ast.BinaryExpr{X: be.Y, OpPos: be.OpPos, Op: m, Y: be.X}
}

func isLenCall(e ast.Expr) bool {
	call, ok := e.(*ast.CallExpr)
	if !ok || len(call.Args) != 1 {
		return false
	}
	id, ok := call.Fun.(*ast.Ident)
	return ok && id.Name == "len"
}

// stepOf: the post statement changes idx by +1 / -1 (i++, i += 1, i = i + 1 and the decreasing forms); 0 otherwise.
func (w *walker) stepOf(post ast.Stmt, idx types.Object) int {
	isIdx := func(e ast.Expr) bool {
		id, ok := ast.Unparen(e).(*ast.Ident)
		return ok && w.info().Uses[id] == idx
	}
	isOne := func(e ast.Expr) bool {
		tv, ok := w.info().Types[e]
		if !ok || tv.Value == nil {
			return false
		}
		k, exact := constant.Int64Val(tv.Value)
		return exact && k == 1
	}
	switch p := post.(type) {
	case *ast.IncDecStmt:
		if isIdx(p.X) {
			if p.Tok == token.INC {
				return 1
			}
			return -1
		}
	case *ast.AssignStmt:
		if len(p.Lhs) != 1 || len(p.Rhs) != 1 || !isIdx(p.Lhs[0]) {
			return 0
		}
		switch p.Tok {
		case token.ADD_ASSIGN:
			if isOne(p.Rhs[0]) {
				return 1
			}
		case token.SUB_ASSIGN:
			if isOne(p.Rhs[0]) {
				return -1
			}
		case token.ASSIGN:
			if be, ok := ast.Unparen(p.Rhs[0]).(*ast.BinaryExpr); ok {
				switch {
				case be.Op == token.ADD && ((isIdx(be.X) && isOne(be.Y)) || (isIdx(be.Y) && isOne(be.X))):
					return 1
				case be.Op == token.SUB && isIdx(be.X) && isOne(be.Y):
					return -1
				}
			}
		}
	}
	return 0
}

func (w *walker) ifStmt(s *ast.IfStmt) {
	if s.Init != nil {
		w.stmt(s.Init)
	}
	// decode guard: if len(data) < K { return ... } - in IDecode itself, or in the decoder it hands its whole work to
	// before anything was read
	if !w.encode && (len(w.frames) == 1 || len(w.seq.Ops) == 0) {
		if be0, ok := s.Cond.(*ast.BinaryExpr); ok && s.Else == nil && orient(be0, isLenCall).Op == token.LSS {
			be := orient(be0, isLenCall)
			if call, ok := be.X.(*ast.CallExpr); ok {
				if id, ok := call.Fun.(*ast.Ident); ok && id.Name == "len" && len(call.Args) == 1 {
					if tv, ok := w.info().Types[be.Y]; ok && tv.Value != nil && endsInReturn(s.Body) && len(w.seq.Ops) == 0 {
						if k, exact := constant.Int64Val(tv.Value); exact {
							if argT := w.info().TypeOf(call.Args[0]); argT != nil && isByteSlice(argT) {
								if w.seq.Guard < 0 || k > w.seq.Guard {
									w.seq.Guard = k
									w.seq.GuardPos = s.Pos()
								}
								w.seq.Returns = append(w.seq.Returns, Ret{Kind: "guard-error", Pos: s.Body.Pos(), OpsSoFar: 0})
								return
							}
						}
					}
				}
			}
		}
	}
	// decode: `if err := r.Error(); err != nil { return err }` - the reader's error takes precedence; a later return of the
	// tail parser's own error then has the meaning of lo.Ternary(r.Error() != nil, r.Error(), parseErr)
	if !w.encode && len(w.frames) == 1 && s.Else == nil && isReaderErrNotNil(w, s.Cond) && len(s.Body.List) == 1 {
		if rs, ok := s.Body.List[0].(*ast.ReturnStmt); ok && len(rs.Results) == 1 {
			if v, ok := w.eval(rs.Results[0]).(vErr); ok && v.kind == "reader-error" {
				w.seq.Returns = append(w.seq.Returns, Ret{Kind: "reader-error", Pos: rs.Pos(), OpsSoFar: len(w.seq.Ops), Detail: "reader error first"})
				w.errFirst = true
				return
			}
		}
	}
	// general: the branches must not touch the wire
	save := w.ops
	var sub []*Op
	w.ops = &sub
	w.condStack = append(w.condStack, s.Cond)
	// inside an inlined helper a `return` in one branch (a guard clause) does not end the helper: what follows the if is
	// still executed on the other branch. Only when both branches return is the helper over.
	fr := w.frames[len(w.frames)-1]
	doneBefore, retBefore := fr.done, fr.ret
	w.block(s.Body.List)
	thenDone := fr.done
	fr.done = doneBefore
	elseDone := false
	if s.Else != nil {
		w.stmt(s.Else)
		elseDone = fr.done
	}
	if len(w.frames) > 1 && !(thenDone && elseDone) {
		fr.done = doneBefore
		if !doneBefore {
			fr.ret = retBefore
		}
	}
	w.condStack = w.condStack[:len(w.condStack)-1]
	w.ops = save
	if len(sub) > 0 {
		w.opaque(s.Pos(), "conditional wire operations")
	}
}

func endsInReturn(b *ast.BlockStmt) bool {
	if len(b.List) == 0 {
		return false
	}
	_, ok := b.List[len(b.List)-1].(*ast.ReturnStmt)
	return ok
}

func isByteSlice(t types.Type) bool {
	s, ok := t.Underlying().(*types.Slice)
	if !ok {
		return false
	}
	b, ok := s.Elem().Underlying().(*types.Basic)
	return ok && b.Kind() == types.Uint8
}

// forStmt handles `for i := 0; i < int(p.Count); i++ { ... }`.
func (w *walker) forStmt(s *ast.ForStmt) {
	if w.countDownLoop(s) {
		return
	}
	if w.appendUntilLoop(s) {
		return
	}
	var idx types.Object
	if as, ok := s.Init.(*ast.AssignStmt); ok && len(as.Lhs) == 1 && len(as.Rhs) == 1 {
		if id, ok := as.Lhs[0].(*ast.Ident); ok {
			if tv := w.info().Types[as.Rhs[0]]; tv.Value != nil && constant.Sign(tv.Value) == 0 {
				idx = w.info().Defs[id]
			}
		}
	}
	be, ok := s.Cond.(*ast.BinaryExpr)
	if ok && idx != nil {
		be = orient(be, func(e ast.Expr) bool { id, isID := e.(*ast.Ident); return isID && w.info().Uses[id] == idx })
	}
	if idx == nil || !ok || be.Op != token.LSS {
		w.opaque(s.Pos(), "loop is not of the form for i := 0; i < n; i++")
		return
	}
	if id, ok := be.X.(*ast.Ident); !ok || w.info().Uses[id] != idx {
		w.opaque(s.Pos(), "loop condition does not test the index variable")
		return
	}
	if w.stepOf(s.Post, idx) != 1 {
		w.opaque(s.Pos(), "loop post statement is not i++")
		return
	}
	// a constant bound (a literal, a constant, len of a fixed-size array): the body runs exactly K times - the same wire
	// effect as K unrolled copies with the index a constant
	if tv := w.info().Types[be.Y]; tv.Value != nil {
		if k, exact := constant.Int64Val(tv.Value); exact && k >= 0 && k <= 16 {
			for i := int64(0); i < k; i++ {
				w.env[idx] = vConst{V: constant.MakeInt64(i)}
				w.block(s.Body.List)
			}
			return
		}
	}
	loop := &Op{Kind: LOOP, Pos: s.Pos()}
	if !w.loopBound(loop, be.Y) {
		w.opaque(s.Pos(), "loop bound is neither a receiver field nor len of one")
		return
	}
	w.env[idx] = vIndex{}
	save := w.ops
	w.ops = &loop.Body
	w.block(s.Body.List)
	w.ops = save
	w.finishLoop(loop)
}

// appendUntilLoop handles `for len(list) < n { list = append(list, <read>) }` on a local list made empty with room for n
// entries (n the count field it was made for): n iterations, one element each.
func (w *walker) appendUntilLoop(s *ast.ForStmt) bool {
	if s.Init != nil || s.Post != nil || w.encode {
		return false
	}
	be, ok := s.Cond.(*ast.BinaryExpr)
	if ok {
		be = orient(be, isLenCall)
	}
	if !ok || be.Op != token.LSS {
		return false
	}
	lc, ok := be.X.(*ast.CallExpr)
	if !ok || len(lc.Args) != 1 {
		return false
	}
	if id, isID := lc.Fun.(*ast.Ident); !isID || id.Name != "len" {
		return false
	}
	lid, ok := lc.Args[0].(*ast.Ident)
	if !ok {
		return false
	}
	lobj := w.info().Uses[lid]
	lp, ok := w.env[lobj].(vPath)
	if !ok || lp.P.Root == nil || !strings.HasPrefix(lp.P.Root.Name, "local:") {
		return false
	}
	cnt, made := w.made[lp.P.String()]
	if !made {
		return false
	}
	loop := &Op{Kind: LOOP, Pos: s.Pos()}
	if !w.loopBound(loop, be.Y) || !loop.Count.Equal(cnt) {
		return false
	}
	// the body: exactly `list = append(list, X)`
	if len(s.Body.List) != 1 {
		return false
	}
	as, ok := s.Body.List[0].(*ast.AssignStmt)
	if !ok || len(as.Lhs) != 1 || len(as.Rhs) != 1 {
		return false
	}
	if id, isID := as.Lhs[0].(*ast.Ident); !isID || w.info().Uses[id] != lobj {
		return false
	}
	save := w.ops
	w.ops = &loop.Body
	w.block(s.Body.List)
	w.ops = save
	w.finishLoop(loop)
	return true
}

// loopBound records the iteration count of a loop: a receiver field, a local that holds the value just read into one,
// or len of a receiver list.
func (w *walker) loopBound(loop *Op, e ast.Expr) bool {
	switch b := w.eval(e).(type) {
	case vPath:
		loop.Count = b.P
	case vLen:
		loop.Over = b.Of
	case vRead:
		if b.Op.Field.IsZero() {
			return false
		}
		loop.Count = b.Op.Field
	default:
		return false
	}
	return true
}

// countDownLoop handles `for left := N; left > 0; left-- { ... }` (N iterations, the counter not used as an index).
func (w *walker) countDownLoop(s *ast.ForStmt) bool {
	as, ok := s.Init.(*ast.AssignStmt)
	if !ok || len(as.Lhs) != 1 || len(as.Rhs) != 1 {
		return false
	}
	id, ok := as.Lhs[0].(*ast.Ident)
	if !ok {
		return false
	}
	idx := w.info().Defs[id]
	be, ok := s.Cond.(*ast.BinaryExpr)
	if ok && idx != nil {
		be = orient(be, func(e ast.Expr) bool { id, isID := e.(*ast.Ident); return isID && w.info().Uses[id] == idx })
	}
	if idx == nil || !ok || be.Op != token.GTR {
		return false
	}
	if cid, ok := be.X.(*ast.Ident); !ok || w.info().Uses[cid] != idx {
		return false
	}
	if tv := w.info().Types[be.Y]; tv.Value == nil || constant.Sign(tv.Value) != 0 {
		return false
	}
	if w.stepOf(s.Post, idx) != -1 {
		return false
	}
	loop := &Op{Kind: LOOP, Pos: s.Pos()}
	if !w.loopBound(loop, as.Rhs[0]) {
		return false
	}
	w.env[idx] = vOpaque{"count-down counter used as a value"}
	save := w.ops
	w.ops = &loop.Body
	w.block(s.Body.List)
	w.ops = save
	w.finishLoop(loop)
	return true
}

func (w *walker) rangeStmt(s *ast.RangeStmt) {
	loop := &Op{Kind: LOOP, Pos: s.Pos()}
	rx := s.X
	// range p.List[:n]: the first n entries of the list (n a receiver field)
	if se, ok := rx.(*ast.SliceExpr); ok && se.Low == nil && se.High != nil && !se.Slice3 {
		if w.loopBound(loop, se.High) && !loop.Count.IsZero() {
			rx = se.X
		} else {
			loop.Count, loop.Over = Path{}, Path{}
		}
	}
	// a local array built from a literal ([...]T{a, b, c}): the loop runs once per element, in order
	if tup, isTup := w.eval(rx).(vTuple); isTup && len(tup) >= 1 && len(tup) <= 16 {
		_, isArr := w.info().TypeOf(rx).Underlying().(*types.Array)
		if _, isSl := w.info().TypeOf(rx).Underlying().(*types.Slice); isSl {
			isArr = true
			for _, el := range tup {
				if _, isRec := el.(vStructLit); !isRec {
					isArr = false
				}
			}
		}
		if isArr {
			for i, el := range tup {
				if s.Key != nil && !isBlank(s.Key) {
					if id, ok := s.Key.(*ast.Ident); ok {
						if obj := w.info().Defs[id]; obj != nil {
							w.env[obj] = vConst{V: constant.MakeInt64(int64(i))}
						}
					}
				}
				if s.Value != nil && !isBlank(s.Value) {
					if id, ok := s.Value.(*ast.Ident); ok {
						if obj := w.info().Defs[id]; obj != nil {
							w.env[obj] = el
						}
					}
				}
				w.block(s.Body.List)
			}
			return
		}
	}
	xv, ok := w.eval(rx).(vPath)
	if !ok {
		w.opaque(s.Pos(), "range over something that is not a receiver field")
		return
	}
	// a fixed-size array field: the loop runs exactly N times - the same wire effect as N unrolled statements
	if t := w.info().TypeOf(rx); t != nil {
		if pt, isP := t.Underlying().(*types.Pointer); isP {
			t = pt.Elem()
		}
		if arr, isA := t.Underlying().(*types.Array); isA && arr.Len() >= 1 && arr.Len() <= 16 {
			for i := int64(0); i < arr.Len(); i++ {
				if s.Key != nil && !isBlank(s.Key) {
					if id, ok := s.Key.(*ast.Ident); ok {
						if obj := w.info().Defs[id]; obj != nil {
							w.env[obj] = vConst{V: constant.MakeInt64(i)}
						}
					}
				}
				if s.Value != nil && !isBlank(s.Value) {
					if id, ok := s.Value.(*ast.Ident); ok {
						if obj := w.info().Defs[id]; obj != nil {
							w.env[obj] = vPath{P: xv.P.extend(Elem{Index: int(i)})}
						}
					}
				}
				w.block(s.Body.List)
			}
			return
		}
	}
	loop.Over = xv.P
	if cnt, ok := w.made[xv.P.String()]; ok && !w.encode && loop.Count.IsZero() {
		loop.Count = cnt
	}
	if s.Key != nil && !isBlank(s.Key) {
		if id, ok := s.Key.(*ast.Ident); ok {
			if obj := w.info().Defs[id]; obj != nil {
				w.env[obj] = vIndex{}
			}
		}
	}
	if s.Value != nil && !isBlank(s.Value) {
		if id, ok := s.Value.(*ast.Ident); ok {
			if obj := w.info().Defs[id]; obj != nil {
				w.env[obj] = vPath{P: xv.P.extend(Elem{Each: true, Index: -1})}
			}
		}
	}
	save := w.ops
	w.ops = &loop.Body
	w.block(s.Body.List)
	w.ops = save
	w.finishLoop(loop)
}

func (w *walker) finishLoop(loop *Op) {
	if len(loop.Body) == 0 {
		return // a loop that does not touch the wire
	}
	// the list is the one whose elements the body touches
	if loop.Over.IsZero() {
		for _, o := range loop.Body {
			if n := len(o.Field.Elems); n > 0 && o.Field.Elems[n-1].Each {
				loop.Over = Path{Root: o.Field.Root, Elems: o.Field.Elems[:n-1]}
				break
			}
		}
	}
	w.emit(loop)
}

func (w *walker) returnStmt(s *ast.ReturnStmt) {
	fr := w.frames[len(w.frames)-1]
	if len(w.frames) > 1 {
		// inside an inlined helper
		if len(s.Results) == 1 {
			fr.ret = w.eval(s.Results[0])
		} else if len(s.Results) > 1 {
			var t vTuple
			for _, r := range s.Results {
				t = append(t, w.eval(r))
			}
			fr.ret = t
		} else if len(fr.named) == 1 {
			if v, ok := w.env[fr.named[0]]; ok {
				fr.ret = v
			} else {
				fr.ret = vConst{}
			}
		} else if len(fr.named) > 1 {
			var t vTuple
			for _, o := range fr.named {
				if v, ok := w.env[o]; ok {
					t = append(t, v)
				} else {
					t = append(t, vConst{})
				}
			}
			fr.ret = t
		} else {
			fr.ret = vConst{}
		}
		fr.done = true
		return
	}
	r := Ret{Pos: s.Pos(), OpsSoFar: len(w.seq.Ops)}
	if w.encode && w.retBytes && len(s.Results) == 1 {
		switch v := w.eval(s.Results[0]).(type) {
		case vBytesSeq:
			for _, o := range v.Ops {
				w.emit(o)
			}
		case vScratch:
			if ops, tiles := scratchOps(v); tiles {
				for _, o := range ops {
					w.emit(o)
				}
			} else {
				w.opaque(s.Pos(), "a scratch slice whose fields do not tile it is returned")
			}
		default:
			w.opaque(s.Pos(), "the value returned is not a tracked buffer")
		}
		w.seq.Returns = append(w.seq.Returns, Ret{Kind: "terminal", Pos: s.Pos(), OpsSoFar: len(w.seq.Ops)})
		return
	}
	if w.encode {
		r.Kind = "other"
		if len(s.Results) == 1 {
			if call, ok := s.Results[0].(*ast.CallExpr); ok {
				if sel, ok := call.Fun.(*ast.SelectorExpr); ok {
					if _, isW := w.eval(sel.X).(vWriter); isW && (sel.Sel.Name == "Bytes" || sel.Sel.Name == "BytesWithLength") {
						r.Kind = "terminal"
						r.Detail = sel.Sel.Name
						if w.seq.Terminal == "" {
							w.seq.Terminal = sel.Sel.Name
						} else if w.seq.Terminal != sel.Sel.Name {
							w.seq.Terminal = "mixed"
						}
					}
				}
			}
		}
		if r.Kind == "other" && len(s.Results) == 1 {
			// return helper(...): a module helper that builds the writer itself and returns its Bytes() / BytesWithLength()
			if _, isCall := s.Results[0].(*ast.CallExpr); isCall {
				if t, isT := w.eval(s.Results[0]).(vTuple); isT && len(t) == 2 {
					a, ok1 := t[0].(vTerm)
					b, ok2 := t[1].(vTerm)
					if ok1 && ok2 && a.name == b.name && a.idx == 0 && b.idx == 1 && w.termAt == len(w.seq.Ops)+1 {
						r.Kind, r.Detail = "terminal", a.name
						if w.seq.Terminal == "" {
							w.seq.Terminal = a.name
						} else if w.seq.Terminal != a.name {
							w.seq.Terminal = "mixed"
						}
					}
				}
			}
		}
		if r.Kind == "other" && len(s.Results) == 2 {
			a, ok1 := w.eval(s.Results[0]).(vTerm)
			b, ok2 := w.eval(s.Results[1]).(vTerm)
			if ok1 && ok2 && a.name == b.name && a.idx == 0 && b.idx == 1 && w.termAt != len(w.seq.Ops)+1 {
				w.opaque(s.Pos(), "the writer's bytes were taken before the last write")
			} else if ok1 && ok2 && a.name == b.name && a.idx == 0 && b.idx == 1 {
				r.Kind, r.Detail = "terminal", a.name
				if w.seq.Terminal == "" {
					w.seq.Terminal = a.name
				} else if w.seq.Terminal != a.name {
					w.seq.Terminal = "mixed"
				}
			}
		}
		if r.Kind == "other" {
			r.Detail = exprString(s.Results)
		}
	} else {
		r.Kind = "other"
		if len(s.Results) == 1 {
			evaluated := w.eval(s.Results[0])
			r.OpsSoFar = len(w.seq.Ops) // a decoder delegated to in the return expression has read by now
			switch v := evaluated.(type) {
			case vStructLit:
				if w.resultRoot != nil {
					w.store(Path{Root: w.resultRoot}, v, s.Results[0], s.Pos())
				}
			case vErr:
				r.Kind, r.Detail = v.kind, v.detail
				if v.kind == "parse-error" && w.errFirst {
					r.Kind, r.Detail = "ternary", "reader error first, else "+v.detail
				}
			case vConst:
				if tv := w.info().Types[s.Results[0]]; tv.IsNil() {
					r.Kind = "nil"
				}
			}
		} else if len(s.Results) == 0 {
			r.Kind, r.Detail = "other", "naked return"
		}
		if r.Kind == "other" && r.Detail == "" {
			r.Detail = exprString(s.Results)
		}
	}
	w.seq.Returns = append(w.seq.Returns, r)
	fr.done = false
}

func exprString(es []ast.Expr) string {
	var b []string
	for _, e := range es {
		b = append(b, types.ExprString(e))
	}
	return strings.Join(b, ", ")
}

// ---------------------------------------------------------------------------------------------
// expressions

func (w *walker) eval(e ast.Expr) val {
	info := w.info()
	if tv, ok := info.Types[e]; ok && tv.Value != nil {
		return vConst{V: tv.Value}
	}
	switch e := e.(type) {
	case *ast.ParenExpr:
		return w.eval(e.X)
	case *ast.Ident:
		if e.Name == "nil" {
			return vConst{}
		}
		obj := info.Uses[e]
		if obj == nil {
			obj = info.Defs[e]
		}
		if v, ok := w.env[obj]; ok {
			return v
		}
		return vOpaque{"identifier " + e.Name + " is not a tracked value"}
	case *ast.StarExpr:
		return w.eval(e.X)
	case *ast.UnaryExpr:
		if e.Op == token.AND {
			return w.eval(e.X)
		}
		return vOpaque{"unary " + e.Op.String()}
	case *ast.SelectorExpr:
		if sel, ok := info.Selections[e]; ok && sel.Kind() == types.MethodVal {
			// a method value (next := r.ReadUint32): calling it is calling the method on the receiver evaluated here
			return vMethodVal{sel: e}
		}
		if sel, ok := info.Selections[e]; ok && sel.Kind() == types.FieldVal {
			base := w.eval(e.X)
			var p Path
			switch b := base.(type) {
			case vPath:
				p = b.P
			case vStruct:
				p = Path{Root: b.root}
			case vStructLit:
				// a field of a table entry bound to the loop variable
				if idx := sel.Index(); len(idx) == 1 {
					if st := derefStruct(sel.Recv()); st != nil {
						for _, lf := range b.fields {
							if lf.f == st.Field(idx[0]) {
								return lf.v
							}
						}
					}
				}
				return vOpaque{"field selection on an untracked value (" + types.ExprString(e) + ")"}
			default:
				return vOpaque{"field selection on an untracked value (" + types.ExprString(e) + ")"}
			}
			// walk the (possibly promoted) selection path
			t := sel.Recv()
			for _, idx := range sel.Index() {
				st := derefStruct(t)
				if st == nil {
					return vOpaque{"selection through a non-struct"}
				}
				f := st.Field(idx)
				p = p.extend(Elem{Field: f, Index: -1})
				t = f.Type()
			}
			return vPath{P: p}
		}
		// package-qualified identifier
		if obj := info.Uses[e.Sel]; obj != nil {
			if v, ok := w.env[obj]; ok {
				return v
			}
			return vOpaque{"package-level object " + obj.Name()}
		}
		return vOpaque{"selector " + types.ExprString(e)}
	case *ast.IndexExpr:
		base, ok := w.eval(e.X).(vPath)
		if !ok {
			return vOpaque{"index of an untracked value"}
		}
		switch iv := w.eval(e.Index).(type) {
		case vConst:
			if iv.V != nil {
				if k, ok := constant.Int64Val(iv.V); ok {
					return vPath{P: base.P.extend(Elem{Index: int(k)})}
				}
			}
		case vIndex:
			return vPath{P: base.P.extend(Elem{Each: true, Index: -1})}
		}
		return vOpaque{"index expression " + types.ExprString(e)}
	case *ast.CompositeLit:
		if _, ok := info.TypeOf(e).Underlying().(*types.Array); ok {
			var t vTuple
			for _, el := range e.Elts {
				if _, isKV := el.(*ast.KeyValueExpr); isKV {
					return vOpaque{"keyed array literal"}
				}
				t = append(t, w.eval(el))
			}
			return t
		}
		// a slice literal of table entries ([]struct{ptr *string; n int}{{&p.A, 6}, ...}): the entries in order; only a
		// table of records is taken this way (a list of plain values stays what it was)
		if sl, ok := info.TypeOf(e).Underlying().(*types.Slice); ok && len(e.Elts) >= 1 && len(e.Elts) <= 32 {
			if _, isRec := sl.Elem().Underlying().(*types.Struct); isRec {
				var t vTuple
				for _, el := range e.Elts {
					if _, isKV := el.(*ast.KeyValueExpr); isKV {
						return vOpaque{"keyed slice literal"}
					}
					rec, isLit := w.eval(el).(vStructLit)
					if !isLit {
						return vOpaque{"composite literal " + types.ExprString(e.Type)}
					}
					t = append(t, rec)
				}
				return t
			}
		}
		if _, ok := info.TypeOf(e).Underlying().(*types.Struct); ok && len(e.Elts) == 0 {
			return vStruct{root: &Root{Name: "lit"}}
		}
		// a table entry in an encoder ({&p.A, 6}): field addresses and constants only, nothing is read or written by
		// evaluating it
		if st, ok := info.TypeOf(e).Underlying().(*types.Struct); ok && w.encode {
			var lit vStructLit
			for i, el := range e.Elts {
				var fv *types.Var
				valExpr := el
				if kv, isKV := el.(*ast.KeyValueExpr); isKV {
					if id, isID := kv.Key.(*ast.Ident); isID {
						for k := 0; k < st.NumFields(); k++ {
							if st.Field(k).Name() == id.Name {
								fv = st.Field(k)
							}
						}
					}
					valExpr = kv.Value
				} else if i < st.NumFields() {
					fv = st.Field(i)
				}
				v := w.eval(valExpr)
				switch v.(type) {
				case vPath, vConst:
				default:
					fv = nil
				}
				if fv == nil {
					return vOpaque{"composite literal " + types.ExprString(e.Type)}
				}
				lit.fields = append(lit.fields, litField{fv, v, valExpr})
			}
			return lit
		}
		// T{F: <value read>, G: conv(<value read>)}: the elements are evaluated in source order; storing the literal stores
		// each element into its field
		if st, ok := info.TypeOf(e).Underlying().(*types.Struct); ok && !w.encode {
			var lit vStructLit
			for i, el := range e.Elts {
				var fv *types.Var
				valExpr := el
				if kv, isKV := el.(*ast.KeyValueExpr); isKV {
					id, isID := kv.Key.(*ast.Ident)
					if !isID {
						return vOpaque{"composite literal " + types.ExprString(e.Type)}
					}
					for k := 0; k < st.NumFields(); k++ {
						if st.Field(k).Name() == id.Name {
							fv = st.Field(k)
						}
					}
					valExpr = kv.Value
				} else if i < st.NumFields() {
					fv = st.Field(i)
				}
				if fv == nil {
					return vOpaque{"composite literal " + types.ExprString(e.Type)}
				}
				lit.fields = append(lit.fields, litField{fv, w.eval(valExpr), valExpr})
			}
			return lit
		}
		return vOpaque{"composite literal " + types.ExprString(e.Type)}
	case *ast.CallExpr:
		return w.call(e)
	case *ast.BinaryExpr:
		return vOpaque{"non-constant expression " + types.ExprString(e)}
	}
	return vOpaque{fmt.Sprintf("expression %T", e)}
}

func derefStruct(t types.Type) *types.Struct {
	if p, ok := t.Underlying().(*types.Pointer); ok {
		t = p.Elem()
	}
	st, _ := t.Underlying().(*types.Struct)
	return st
}

func intWidth(t types.Type) int {
	b, ok := t.Underlying().(*types.Basic)
	if !ok {
		return 0
	}
	switch b.Kind() {
	case types.Uint8, types.Int8:
		return 1
	case types.Uint16, types.Int16:
		return 2
	case types.Uint32, types.Int32:
		return 4
	case types.Uint64, types.Int64:
		return 8
	}
	return 0
}

func (w *walker) call(e *ast.CallExpr) val {
	info := w.info()
	// conversion
	if tv, ok := info.Types[e.Fun]; ok && tv.IsType() && len(e.Args) == 1 {
		v := w.eval(e.Args[0])
		conv := types.TypeString(tv.Type, func(p *types.Package) string { return p.Name() })
		switch v := v.(type) {
		case vPath:
			nv := vPath{P: v.P, Convs: append(append([]string{}, v.Convs...), conv), Transform: v.Transform, NarrowFrom: v.NarrowFrom}
			if from := info.TypeOf(e.Args[0]); from != nil {
				if fw, tw := intWidth(from), intWidth(tv.Type); fw > 0 && tw > 0 && tw < fw {
					nv.NarrowFrom = from.String()
				}
			}
			return nv
		case vRead:
			return vRead{Op: v.Op, Convs: append(append([]string{}, v.Convs...), conv)}
		case vLen:
			return v
		}
		return v
	}
	// a call through a method value bound earlier
	if id, ok := e.Fun.(*ast.Ident); ok {
		if obj := info.Uses[id]; obj != nil {
			if mv, isMV := w.env[obj].(vMethodVal); isMV {
				return w.call(&ast.CallExpr{Fun: mv.sel, Lparen: e.Lparen, Args: e.Args, Ellipsis: e.Ellipsis, Rparen: e.Rparen})
			}
		}
	}
	// builtins
	if id, ok := e.Fun.(*ast.Ident); ok {
		if _, isB := info.Uses[id].(*types.Builtin); isB {
			switch id.Name {
			case "len":
				if p, ok := w.eval(e.Args[0]).(vPath); ok {
					return vLen{Of: p.P}
				}
				return vOpaque{"len of an untracked value"}
			case "make":
				var sz val
				if len(e.Args) > 1 {
					sz = w.eval(e.Args[1])
				}
				if w.encode && len(e.Args) == 2 && isByteSlice(info.TypeOf(e.Args[0])) {
					if k, isK := sz.(vConst); isK && k.V != nil {
						if n, okN := constant.Int64Val(k.V); okN && n > 0 && n <= 64 {
							return vScratch{size: n, slots: map[int64]*Op{}}
						}
					}
				}
				var cp val
				if len(e.Args) > 2 {
					cp = w.eval(e.Args[2])
				}
				return vMake{size: sz, capv: cp}
			case "append":
				if len(e.Args) == 2 && !e.Ellipsis.IsValid() {
					if p, ok := w.eval(e.Args[0]).(vPath); ok {
						return vAppend{list: p.P, elem: w.eval(e.Args[1])}
					}
				}
				return vOpaque{"append form not understood"}
			case "new":
				return vOpaque{"new"}
			}
			return vOpaque{"builtin " + id.Name}
		}
	}
	callee := calleeOf(info, e)
	if callee == nil {
		return vOpaque{"dynamic call " + types.ExprString(e.Fun)}
	}
	sig := callee.Type().(*types.Signature)
	pkgPath := ""
	if callee.Pkg() != nil {
		pkgPath = callee.Pkg().Path()
	}
	// methods on tracked values
	if sel, ok := e.Fun.(*ast.SelectorExpr); ok && sig.Recv() != nil {
		recvVal := w.eval(sel.X)
		switch rv := recvVal.(type) {
		case vWriter:
			return w.writerCall(e, callee)
		case vReader:
			return w.readerCall(e, callee)
		case vLocalBuf:
			if pkgPath == "bytes" && callee.Name() == "Bytes" {
				return vBytesSeq{Ops: *rv.ops}
			}
			return vOpaque{"bytes.Buffer." + callee.Name()}
		case vPath:
			if load.InModule(callee.Pkg()) {
				// container serializer: method of a module-declared named map type
				if named := namedOf(sig.Recv().Type()); named != nil {
					if _, isMap := named.Underlying().(*types.Map); isMap && isByteSlice(sig.Results().At(0).Type()) {
						return vTailBytes{P: rv.P, Container: named.Obj().Pkg().Name() + "." + named.Obj().Name(), Via: callee.Name()}
					}
				}
				return w.inline(callee, e, rv)
			}
			return vOpaque{"method " + callee.FullName() + " on a field"}
		}
		if load.InModule(callee.Pkg()) {
			return vOpaque{"module method " + callee.FullName() + " on an untracked receiver"}
		}
	}
	// package-level functions
	switch {
	case pkgPath == load.Module+"/packet" && callee.Name() == "NewPacketWriter":
		return vWriter{}
	case pkgPath == load.Module+"/packet" && callee.Name() == "NewPacketReader":
		return vReader{}
	case pkgPath == "bytes" && callee.Name() == "NewBuffer":
		// the buffer starts with the octets of its argument: only an empty slice (make([]byte, 0, n) / nil) adds nothing
		if len(e.Args) == 1 {
			emptyArg := false
			switch a := w.eval(e.Args[0]).(type) {
			case vMake:
				if k, isK := a.size.(vConst); isK && k.V != nil {
					if n, okN := constant.Int64Val(k.V); okN && n == 0 {
						emptyArg = true
					}
				}
			case vConst:
				emptyArg = a.V == nil && w.info().Types[e.Args[0]].IsNil()
			}
			if !emptyArg {
				return vOpaque{"bytes.NewBuffer over a slice that is not provably empty: its octets precede everything written"}
			}
		}
		ops := []*Op{}
		return vLocalBuf{ops: &ops}
	case pkgPath == "encoding/binary" && strings.HasPrefix(callee.Name(), "PutUint") && len(e.Args) == 2 && sig.Recv() != nil:
		// order.PutUintK(b[o:], field) into a scratch slice
		target := e.Args[0]
		off := int64(0)
		if se, isSE := target.(*ast.SliceExpr); isSE && !se.Slice3 {
			if se.Low != nil {
				k, isK := w.eval(se.Low).(vConst)
				if !isK || k.V == nil {
					return vOpaque{"PutUint at a non-constant offset"}
				}
				off, _ = constant.Int64Val(k.V)
			}
			target = se.X
		}
		sc, isSc := w.eval(target).(vScratch)
		if !isSc {
			return vOpaque{"call of " + callee.FullName() + " is not interpreted"}
		}
		wd := map[string]int{"PutUint16": 2, "PutUint32": 4, "PutUint64": 8}[callee.Name()]
		if wd == 0 {
			return vOpaque{"call of " + callee.FullName() + " is not interpreted"}
		}
		op := &Op{Kind: INT, Width: wd, Prim: "binary." + callee.Name(), Pos: e.Pos()}
		if sel, isSel := e.Fun.(*ast.SelectorExpr); isSel {
			op.Order = w.orderOf(sel.X)
		}
		if p, ok := w.eval(e.Args[1]).(vPath); ok {
			op.Field, op.Convs = p.P, p.Convs
		} else {
			op.Kind, op.Why = OPAQUE, callee.Name()+" of an untracked value"
		}
		if _, dup := sc.slots[off]; dup {
			return vOpaque{"two values written at the same offset of a scratch slice"}
		}
		sc.slots[off] = op
		return vConst{}
	case pkgPath == "encoding/binary" && callee.Name() == "Write" && len(e.Args) == 3:
		buf, ok := w.eval(e.Args[0]).(vLocalBuf)
		if !ok {
			return vOpaque{"binary.Write to an untracked buffer"}
		}
		wd := intWidth(info.TypeOf(e.Args[2]))
		if wd == 0 {
			return vOpaque{"binary.Write of a non-integer value"}
		}
		op := &Op{Kind: INT, Width: wd, Prim: "binary.Write", Pos: e.Pos(), Order: w.orderOf(e.Args[1])}
		if p, ok := w.eval(e.Args[2]).(vPath); ok {
			op.Field, op.Convs = p.P, p.Convs
		} else {
			op.Kind, op.Why = OPAQUE, "binary.Write of an untracked value"
		}
		*buf.ops = append(*buf.ops, op)
		return vConst{}
	case pkgPath == "encoding/hex" && (callee.Name() == "EncodeToString" || callee.Name() == "DecodeString"):
		v := w.eval(e.Args[0])
		name := "hex." + callee.Name()
		switch v := v.(type) {
		case vRead:
			if v.Op.Transform != "" {
				return vOpaque{"two transforms on one value"}
			}
			v.Op.Transform = name
			if callee.Name() == "DecodeString" {
				return vTuple{v, vConst{}}
			}
			return v
		case vPath:
			if v.Transform != "" {
				return vOpaque{"two transforms on one value"}
			}
			nv := vPath{P: v.P, Convs: v.Convs, Transform: name}
			if callee.Name() == "DecodeString" {
				return vTuple{nv, vConst{}}
			}
			return nv
		}
		return vOpaque{name + " of an untracked value"}
	case pkgPath == "github.com/samber/lo" && callee.Name() == "Ternary" && len(e.Args) == 3:
		a, aok := w.eval(e.Args[1]).(vErr)
		b, bok := w.eval(e.Args[2]).(vErr)
		if aok && bok && a.kind == "reader-error" && isReaderErrNotNil(w, e.Args[0]) {
			return vErr{kind: "ternary", detail: "reader error first, else " + b.detail}
		}
		return vOpaque{"lo.Ternary form not understood"}
	}
	if load.InModule(callee.Pkg()) {
		// a first-non-nil helper over two errors: firstErr(r.Error(), parseErr) is lo.Ternary(r.Error() != nil, r.Error(), parseErr)
		if len(e.Args) == 2 && w.isFirstNonNil(callee) {
			a, aok := w.eval(e.Args[0]).(vErr)
			b, bok := w.eval(e.Args[1]).(vErr)
			if aok && bok && a.kind == "reader-error" {
				return vErr{kind: "ternary", detail: "reader error first, else " + b.detail}
			}
			return vOpaque{"first-non-nil helper " + callee.Name() + " not applied to (reader error, other error)"}
		}
		// helper taking the reader / writer, or a pure field helper
		for _, a := range e.Args {
			switch w.eval(a).(type) {
			case vReader:
				// parser reading the optional-parameter tail from the reader (ReadTLVs1, ReadOptions)
				if named := firstNamedMapResult(sig); named != nil {
					op := w.emit(&Op{Kind: TAIL, Container: named.Obj().Pkg().Name() + "." + named.Obj().Name(), Via: callee.Name(), Pos: e.Pos(), Prim: "reader:" + callee.Name()})
					if sig.Results().Len() == 2 {
						return vTuple{vTail{Op: op}, vErr{kind: "parse-error", detail: callee.Name() + " error"}}
					}
					return vTail{Op: op}
				}
				return w.inline(callee, e, nil)
			case vWriter:
				return w.inline(callee, e, nil)
			case vRest:
				// parser over the rest of the input: optional-parameter tail
				if named := firstNamedMapResult(sig); named != nil {
					op := w.emit(&Op{Kind: TAIL, Container: named.Obj().Pkg().Name() + "." + named.Obj().Name(), Via: callee.Name(), Pos: e.Pos(), Prim: "rest:" + callee.Name()})
					if sig.Results().Len() == 2 {
						return vTuple{vTail{Op: op}, vErr{kind: "parse-error", detail: callee.Name() + " error"}}
					}
					return vTail{Op: op}
				}
			}
		}
		// an unexported helper that does a whole PDU's work on values handed to it - it builds its own writer and returns
		// ([]byte, error), or its own reader and returns error (encodeHeaderOnly(p.Header), decodeHeaderOnly(&p.Header, data))
		if !callee.Exported() && sig.Recv() == nil {
			res := sig.Results()
			whole := false
			switch {
			case w.encode && res.Len() == 2 && isByteSlice(res.At(0).Type()) && res.At(1).Type().String() == "error":
				whole = true
			case !w.encode && res.Len() == 1 && res.At(0).Type().String() == "error":
				whole = true
			}
			if whole {
				return w.inline(callee, e, nil)
			}
		}
		return vOpaque{"call of module function " + callee.FullName() + " is not interpreted"}
	}
	return vOpaque{"call of " + callee.FullName() + " is not interpreted"}
}

// isFirstNonNil recognises `func f(a, b error) error { if a != nil { return a }; return b }`.
func (w *walker) isFirstNonNil(callee *types.Func) bool {
	decl, pkg := w.x.Prog.FuncDecl(callee)
	if decl == nil || decl.Body == nil || decl.Recv != nil || len(decl.Body.List) != 2 {
		return false
	}
	var params []types.Object
	for _, f := range decl.Type.Params.List {
		for _, n := range f.Names {
			obj := pkg.TypesInfo.Defs[n]
			if obj == nil || obj.Type().String() != "error" {
				return false
			}
			params = append(params, obj)
		}
	}
	if len(params) != 2 || decl.Type.Results == nil || len(decl.Type.Results.List) != 1 || len(decl.Type.Results.List[0].Names) > 0 {
		return false
	}
	isParam := func(e ast.Expr, i int) bool {
		id, ok := e.(*ast.Ident)
		return ok && pkg.TypesInfo.Uses[id] == params[i]
	}
	retOf := func(st ast.Stmt, i int) bool {
		rs, ok := st.(*ast.ReturnStmt)
		return ok && len(rs.Results) == 1 && isParam(rs.Results[0], i)
	}
	ifs, ok := decl.Body.List[0].(*ast.IfStmt)
	if !ok || ifs.Init != nil || ifs.Else != nil || len(ifs.Body.List) != 1 {
		return false
	}
	be, ok := ifs.Cond.(*ast.BinaryExpr)
	if !ok || !isParam(be.X, 0) || !pkg.TypesInfo.Types[be.Y].IsNil() {
		return false
	}
	switch be.Op {
	case token.NEQ: // if a != nil { return a }; return b
		return retOf(ifs.Body.List[0], 0) && retOf(decl.Body.List[1], 1)
	case token.EQL: // if a == nil { return b }; return a
		return retOf(ifs.Body.List[0], 1) && retOf(decl.Body.List[1], 0)
	}
	return false
}

func isReaderErrNotNil(w *walker, e ast.Expr) bool {
	be, ok := e.(*ast.BinaryExpr)
	if !ok || be.Op != token.NEQ {
		return false
	}
	v, ok := w.eval(be.X).(vErr)
	return ok && v.kind == "reader-error" && w.info().Types[be.Y].IsNil()
}

func firstNamedMapResult(sig *types.Signature) *types.Named {
	if sig.Results().Len() == 0 {
		return nil
	}
	n := namedOf(sig.Results().At(0).Type())
	if n == nil {
		return nil
	}
	if _, ok := n.Underlying().(*types.Map); ok {
		return n
	}
	return nil
}

func namedOf(t types.Type) *types.Named {
	if p, ok := t.(*types.Pointer); ok {
		t = p.Elem()
	}
	n, _ := t.(*types.Named)
	return n
}

func calleeOf(info *types.Info, e *ast.CallExpr) *types.Func {
	switch f := e.Fun.(type) {
	case *ast.Ident:
		fn, _ := info.Uses[f].(*types.Func)
		return fn
	case *ast.SelectorExpr:
		if sel, ok := info.Selections[f]; ok {
			fn, _ := sel.Obj().(*types.Func)
			return fn
		}
		fn, _ := info.Uses[f.Sel].(*types.Func)
		return fn
	}
	return nil
}

// orderOf classifies a byte-order expression: "big" iff it denotes encoding/binary.BigEndian
// (directly, or through a module variable whose only definition is that value).
func (w *walker) orderOf(e ast.Expr) string {
	return OrderOf(w.x.Prog, w.info(), e)
}

// OrderOf is exported for the C02-ENDIAN rule.
func OrderOf(prog *load.Program, info *types.Info, e ast.Expr) string {
	var obj types.Object
	switch x := e.(type) {
	case *ast.Ident:
		obj = info.Uses[x]
	case *ast.SelectorExpr:
		obj = info.Uses[x.Sel]
	}
	v, ok := obj.(*types.Var)
	if !ok || v.Pkg() == nil {
		return "other"
	}
	if v.Pkg().Path() == "encoding/binary" && v.Name() == "BigEndian" {
		return "big"
	}
	if load.InModule(v.Pkg()) {
		// module-level alias such as packet.packetOrder: its initialiser must be binary.BigEndian
		pkg := prog.ByPath[v.Pkg().Path()]
		if pkg == nil {
			return "other"
		}
		// a local alias (be := binary.BigEndian): defined exactly once, never reassigned
		if v.Parent() != nil && v.Parent() != v.Pkg().Scope() {
			var def ast.Expr
			n := 0
			for _, f := range pkg.Syntax {
				if f.Pos() > v.Pos() || f.End() < v.Pos() {
					continue
				}
				ast.Inspect(f, func(nd ast.Node) bool {
					as, ok := nd.(*ast.AssignStmt)
					if !ok {
						return true
					}
					for i, l := range as.Lhs {
						if id, ok := l.(*ast.Ident); ok && (pkg.TypesInfo.Defs[id] == v || pkg.TypesInfo.Uses[id] == v) {
							n++
							if len(as.Lhs) == len(as.Rhs) {
								def = as.Rhs[i]
							}
						}
					}
					return true
				})
			}
			if n == 1 && def != nil {
				return OrderOf(prog, pkg.TypesInfo, def)
			}
			return "other"
		}
		for _, f := range pkg.Syntax {
			for _, d := range f.Decls {
				gd, ok := d.(*ast.GenDecl)
				if !ok || gd.Tok != token.VAR {
					continue
				}
				for _, sp := range gd.Specs {
					vs := sp.(*ast.ValueSpec)
					for i, n := range vs.Names {
						if pkg.TypesInfo.Defs[n] == v && i < len(vs.Values) {
							return OrderOf(prog, pkg.TypesInfo, vs.Values[i])
						}
					}
				}
			}
		}
	}
	return "other"
}

// inline interprets a module-local helper by parameter substitution.
func (w *walker) inline(callee *types.Func, e *ast.CallExpr, recv val) val {
	if w.depth >= 4 {
		return vOpaque{"helper nesting deeper than 4 at " + callee.FullName()}
	}
	decl, pkg := w.x.Prog.FuncDecl(callee)
	if decl == nil || decl.Body == nil {
		return vOpaque{"no body for helper " + callee.FullName()}
	}
	// bind parameters (evaluate arguments in the caller's frame first)
	var args []val
	for _, a := range e.Args {
		args = append(args, w.eval(a))
	}
	saved := map[types.Object]val{}
	bind := func(id *ast.Ident, v val) {
		if obj := pkg.TypesInfo.Defs[id]; obj != nil {
			if old, ok := w.env[obj]; ok {
				saved[obj] = old
			}
			w.env[obj] = v
		}
	}
	if decl.Recv != nil && len(decl.Recv.List) == 1 && len(decl.Recv.List[0].Names) == 1 && recv != nil {
		bind(decl.Recv.List[0].Names[0], recv)
	}
	i := 0
	for _, f := range decl.Type.Params.List {
		for _, n := range f.Names {
			if i < len(args) {
				bind(n, args[i])
			}
			i++
		}
	}
	if decl.Type.Results != nil {
		for _, f := range decl.Type.Results.List {
			for _, n := range f.Names {
				if obj := pkg.TypesInfo.Defs[n]; obj != nil {
					if _, ok := obj.Type().Underlying().(*types.Struct); ok {
						w.env[obj] = vStruct{root: &Root{Name: n.Name}}
					}
				}
			}
		}
	}
	fr := &frame{info: pkg.TypesInfo, pkg: pkg}
	if decl.Type.Results != nil {
		for _, f := range decl.Type.Results.List {
			for _, n := range f.Names {
				if obj := pkg.TypesInfo.Defs[n]; obj != nil {
					fr.named = append(fr.named, obj)
				}
			}
		}
	}
	w.frames = append(w.frames, fr)
	w.depth++
	w.block(decl.Body.List)
	w.depth--
	w.frames = w.frames[:len(w.frames)-1]
	for obj, v := range saved {
		w.env[obj] = v
	}
	if fr.ret == nil {
		return vConst{}
	}
	return fr.ret
}

func (w *walker) constInt(e ast.Expr) (int, bool) {
	if tv, ok := w.info().Types[e]; ok && tv.Value != nil {
		if k, ok := constant.Int64Val(tv.Value); ok {
			return int(k), true
		}
	}
	// the width column of a table entry bound to the loop variable (field.n): a constant of the literal
	if sel, isSel := ast.Unparen(e).(*ast.SelectorExpr); isSel {
		if s, ok := w.info().Selections[sel]; ok && s.Kind() == types.FieldVal {
			if _, isVar := sel.X.(*ast.Ident); !isVar {
				return 0, false
			}
			if _, isRec := w.eval(sel.X).(vStructLit); isRec {
				if k, isK := w.eval(sel).(vConst); isK && k.V != nil && k.V.Kind() == constant.Int {
					if n, ok := constant.Int64Val(k.V); ok {
						return int(n), true
					}
				}
			}
		}
	}
	return 0, false
}

func (w *walker) writerCall(e *ast.CallExpr, callee *types.Func) val {
	name := callee.Name()
	op := &Op{Prim: name, Pos: e.Pos(), Order: "big"}
	setField := func(v val) bool {
		switch v := v.(type) {
		case vPath:
			op.Field, op.Convs, op.Transform, op.NarrowFrom = v.P, v.Convs, v.Transform, v.NarrowFrom
			return true
		case vConst:
			op.Const = v.V
			return true
		case vLen:
			op.Convs = append(op.Convs, "len("+v.Of.String()+")")
			op.LenField = v.Of
			op.Why = "len"
			return true
		}
		return false
	}
	switch name {
	case "WriteUint8", "WriteUint16", "WriteUint32", "WriteUint64":
		op.Kind = INT
		op.Width = map[string]int{"WriteUint8": 1, "WriteUint16": 2, "WriteUint32": 4, "WriteUint64": 8}[name]
		if !setField(w.eval(e.Args[0])) {
			return vOpaque{name + " of an untracked value " + types.ExprString(e.Args[0])}
		}
		w.emit(op)
	case "WriteFixedLenString":
		if !setField(w.eval(e.Args[0])) {
			return vOpaque{name + " of an untracked value " + types.ExprString(e.Args[0])}
		}
		if n, ok := w.constInt(e.Args[1]); ok {
			op.Kind, op.Width, op.Trim = FIX, n, true
		} else if lp, ok := w.eval(e.Args[1]).(vPath); ok {
			op.Kind, op.LenField, op.Trim = VAR, lp.P, true
		} else {
			return vOpaque{"WriteFixedLenString width is neither constant nor a receiver field"}
		}
		w.emit(op)
	case "WriteCString":
		op.Kind = CSTR
		if !setField(w.eval(e.Args[0])) {
			return vOpaque{name + " of an untracked value"}
		}
		w.emit(op)
	case "WriteString", "WriteBytes":
		switch v := w.eval(e.Args[0]).(type) {
		case vBytesSeq:
			for _, o := range v.Ops {
				w.emit(o)
			}
		case vScratch:
			ops, tiles := scratchOps(v)
			if !tiles {
				return vOpaque{name + " of a scratch slice whose fields do not tile it"}
			}
			for _, o := range ops {
				w.emit(o)
			}
		case vTailBytes:
			w.emit(&Op{Kind: TAIL, Field: v.P, Container: v.Container, Via: v.Via, Prim: name, Pos: e.Pos()})
		case vPath:
			op.Kind, op.LenSelf = VAR, true
			op.Field, op.Convs, op.Transform = v.P, v.Convs, v.Transform
			w.emit(op)
		default:
			return vOpaque{name + " of an untracked value " + types.ExprString(e.Args[0])}
		}
	case "Bytes", "BytesWithLength":
		// out, err := w.Bytes(); return out, err - the tuple is remembered so that the return is recognised as the terminal
		w.termAt = len(w.seq.Ops) + 1
		return vTuple{vTerm{name, 0}, vTerm{name, 1}}
	case "Written", "Len", "Error", "HexString":
		return vOpaque{"writer." + name + " used as a value"}
	case "Release":
		return vConst{}
	default:
		return vOpaque{"unknown writer primitive " + name}
	}
	return vConst{}
}

func (w *walker) readerCall(e *ast.CallExpr, callee *types.Func) val {
	name := callee.Name()
	op := &Op{Prim: name, Pos: e.Pos(), Order: "big"}
	switch name {
	case "ReadUint8", "ReadUint16", "ReadUint32", "ReadUint64":
		op.Kind = INT
		op.Width = map[string]int{"ReadUint8": 1, "ReadUint16": 2, "ReadUint32": 4, "ReadUint64": 8}[name]
	case "ReadCStringN", "ReadCStringNWithoutTrim", "ReadNBytes":
		op.Raw = name != "ReadCStringN"
		op.Trim = !op.Raw
		if n, ok := w.constInt(e.Args[0]); ok {
			op.Kind, op.Width = FIX, n
		} else if lp, ok := w.eval(e.Args[0]).(vPath); ok {
			op.Kind, op.LenField = VAR, lp.P
		} else if rd, ok := w.eval(e.Args[0]).(vRead); ok && !rd.Op.Field.IsZero() {
			// n := r.ReadUint8(); p.Len = n; r.ReadNBytes(int(n)): the local is the value of field p.Len
			op.Kind, op.LenField = VAR, rd.Op.Field
		} else {
			return vOpaque{name + " length is neither constant nor a receiver field"}
		}
	case "ReadCString":
		op.Kind = CSTR
	case "Error":
		return vErr{kind: "reader-error", detail: "reader.Error()"}
	case "Bytes":
		return vRest{}
	case "Release":
		return vConst{}
	case "Remaining", "HexString":
		return vOpaque{"reader." + name + " used as a value"}
	default:
		return vOpaque{"unknown reader primitive " + name}
	}
	w.emit(op)
	return vRead{Op: op}
}

// readerHelper: a module function taking the reader and returning a container (ReadTLVs1, ReadOptions).
func init() { _ = strings.TrimSpace }
