// Package prover is engine E3: a small, sound, incomplete prover for linear integer
// inequalities over SSA values. Facts come from dominating branch conditions, definitions
// (len of make / slice / conversion), library contracts (strings.Index, bytes.IndexByte),
// type ranges, the monotone-phi lemma and the invariant-sum lemma for loop-header phis; a goal
// e >= 0 is proved by finding a non-negative combination of at most three facts. When a goal
// mentions phis of a non-loop merge block it is split over the incoming edges. No external
// solver, no path enumeration.
package prover

import (
	"fmt"
	"go/constant"
	"go/token"
	"go/types"
	"sort"
	"strings"

	"golang.org/x/tools/go/ssa"
)

// Lin is c + sum coeff*atom.
type Lin struct {
	C int64
	T map[string]int64
}

func Const(c int64) Lin { return Lin{C: c, T: map[string]int64{}} }

func Atom(a string) Lin { return Lin{T: map[string]int64{a: 1}} }

func (a Lin) Add(b Lin, k int64) Lin {
	r := Const(a.C + k*b.C)
	for t, v := range a.T {
		r.T[t] += v
	}
	for t, v := range b.T {
		r.T[t] += k * v
	}
	for t, v := range r.T {
		if v == 0 {
			delete(r.T, t)
		}
	}
	return r
}

func (a Lin) Scale(k int64) Lin { return Const(0).Add(a, k) }

func (a Lin) IsConst() bool { return len(a.T) == 0 }

func (a Lin) String() string {
	var ks []string
	for k := range a.T {
		ks = append(ks, k)
	}
	sort.Strings(ks)
	var b []string
	for _, k := range ks {
		switch a.T[k] {
		case 1:
			b = append(b, k)
		case -1:
			b = append(b, "-"+k)
		default:
			b = append(b, fmt.Sprintf("%d*%s", a.T[k], k))
		}
	}
	if a.C != 0 || len(b) == 0 {
		b = append(b, fmt.Sprint(a.C))
	}
	return strings.Join(b, " + ")
}

// Fact: L >= 0, or L != 0 when NE.
type Fact struct {
	L   Lin
	NE  bool
	Why string
}

// F is the per-function prover.
type F struct {
	Fn          *ssa.Function
	atoms       map[string]ssa.Value // atom -> representative value
	idom        map[*ssa.BasicBlock]*ssa.BasicBlock
	loops       map[*ssa.BasicBlock]*Loop // by header
	inLoop      map[*ssa.BasicBlock][]*Loop
	lemma       map[*ssa.BasicBlock][]Fact // loop-header lemma facts
	Is32bit     bool
	phiDepth    int
	escapeCache map[string]bool
	// Summaries: extra facts for the false/true result of a module call (availability guards).
	CallFacts func(call *ssa.Call, result bool) []Fact
	// ResultFacts lets the client state facts about the integer result of a module call (a summary of the callee proved
	// separately): unconditional facts over the result atom, and conditional ones (guard >= 0 implies fact).
	ResultFacts func(call *ssa.Call, result Lin) (always []Fact, when []CondFact)
	// NonNeg: values that are non-negative by an invariant proved elsewhere (e.g. the writer's byte counter, C20-COUNT).
	NonNeg func(v ssa.Value) bool
}

type Loop struct {
	Header  *ssa.BasicBlock
	Blocks  map[*ssa.BasicBlock]bool
	Latches []*ssa.BasicBlock
}

func New(fn *ssa.Function) *F {
	p := &F{Fn: fn, atoms: map[string]ssa.Value{}, loops: map[*ssa.BasicBlock]*Loop{}, inLoop: map[*ssa.BasicBlock][]*Loop{}, lemma: map[*ssa.BasicBlock][]Fact{}}
	p.findLoops()
	p.loopLemmas()
	return p
}

func id(v ssa.Value) string {
	if v == nil {
		return "<nil>"
	}
	return v.Name()
}

func (p *F) atomFor(prefix string, v ssa.Value) Lin {
	a := prefix + id(v)
	p.atoms[a] = v
	return Atom(a)
}

func isInt(t types.Type) bool {
	b, ok := t.Underlying().(*types.Basic)
	return ok && b.Info()&types.IsInteger != 0
}

// WordBits is the width of int/uint/uintptr of the program under analysis (64, or 32 for the GOARCH=386 pass).
var WordBits = 64

func intBits(t types.Type) (bits int, unsigned bool) {
	b, ok := t.Underlying().(*types.Basic)
	if !ok {
		return 0, false
	}
	switch b.Kind() {
	case types.Uint8:
		return 8, true
	case types.Uint16:
		return 16, true
	case types.Uint32:
		return 32, true
	case types.Uint, types.Uintptr:
		return WordBits, true
	case types.Uint64:
		return 64, true
	case types.Int8:
		return 8, false
	case types.Int16:
		return 16, false
	case types.Int32:
		return 32, false
	case types.Int:
		return WordBits, false
	case types.Int64:
		return 64, false
	}
	return 0, false
}

// LinOf linearises an integer SSA value.
func (p *F) LinOf(v ssa.Value) Lin {
	switch x := v.(type) {
	case *ssa.Const:
		if x.Value != nil && x.Value.Kind() == constant.Int {
			if k, ok := constant.Int64Val(x.Value); ok {
				return Const(k)
			}
		}
	case *ssa.BinOp:
		if !isInt(x.Type()) {
			break
		}
		bits, uns := intBits(x.Type())
		wrapSafe := !uns || bits >= 32 // arithmetic in narrow unsigned types may wrap: keep as atom
		switch x.Op {
		case token.ADD:
			if wrapSafe {
				return p.LinOf(x.X).Add(p.LinOf(x.Y), 1)
			}
		case token.SUB:
			if !uns {
				return p.LinOf(x.X).Add(p.LinOf(x.Y), -1)
			}
		case token.MUL:
			if wrapSafe {
				a, b := p.LinOf(x.X), p.LinOf(x.Y)
				if a.IsConst() {
					return b.Scale(a.C)
				}
				if b.IsConst() {
					return a.Scale(b.C)
				}
				// (sum c_i*x_i + c) * y with y a single atom: distribute into monomial atoms
				for _, pair := range [][2]Lin{{a, b}, {b, a}} {
					if y, ok := singleAtom(pair[1]); ok {
						r := Const(0)
						r.T[y] += pair[0].C
						for xa, k := range pair[0].T {
							m := "mul:" + xa + "*" + y
							if y < xa {
								m = "mul:" + y + "*" + xa
							}
							if _, known := p.atoms[m]; !known {
								p.atoms[m] = v
							}
							r.T[m] += k
						}
						for t, k := range r.T {
							if k == 0 {
								delete(r.T, t)
							}
						}
						return r
					}
				}
			}
		}
	case *ssa.Convert:
		if isInt(x.Type()) && isInt(x.X.Type()) {
			fb, fu := intBits(x.X.Type())
			tb, tu := intBits(x.Type())
			switch {
			case fu && tb > fb: // unsigned widening
				return p.LinOf(x.X)
			case fu && !tu && tb <= fb:
				// same-width (or narrowing) unsigned -> signed: may become negative; atom
			case !fu && !tu && tb >= fb: // signed widening
				return p.LinOf(x.X)
			case fu && tu && tb >= fb:
				return p.LinOf(x.X)
			}
			// a narrowing of a value that was widened from a type whose whole range fits the target: uint16(int(w)) with
			// w a uint16 is w (every conversion on the way up kept the value)
			cur := ssa.Value(x.X)
			for i := 0; i < 4; i++ {
				var inner ssa.Value
				switch y := cur.(type) {
				case *ssa.Convert:
					inner = y.X
				case *ssa.ChangeType:
					inner = y.X
				}
				if inner == nil || !isInt(inner.Type()) || !isInt(cur.Type()) {
					break
				}
				ib, iu := intBits(inner.Type())
				cb, cu := intBits(cur.Type())
				// inner -> cur must keep the value: widening with compatible signedness
				keeps := (iu && cb > ib) || (iu && cu && cb >= ib) || (!iu && !cu && cb >= ib)
				if !keeps {
					break
				}
				// inner's range within the target's range
				fits := (iu && tu && ib <= tb) || (iu && !tu && ib < tb) || (!iu && !tu && ib <= tb)
				if fits {
					return p.LinOf(inner)
				}
				cur = inner
			}
		}
	case *ssa.ChangeType:
		if isInt(x.Type()) {
			return p.LinOf(x.X)
		}
	case *ssa.Call:
		if b, ok := x.Call.Value.(*ssa.Builtin); ok && b.Name() == "len" && len(x.Call.Args) == 1 {
			return p.LenOf(x.Call.Args[0])
		}
		// cap of an array is its length; the capacity of a slice is not its length (what lies between the two is not part
		// of the value): it stays a number of its own
		if b, ok := x.Call.Value.(*ssa.Builtin); ok && b.Name() == "cap" && len(x.Call.Args) == 1 {
			t := x.Call.Args[0].Type().Underlying()
			if pt, isP := t.(*types.Pointer); isP {
				t = pt.Elem().Underlying()
			}
			if _, isArr := t.(*types.Array); isArr {
				return p.LenOf(x.Call.Args[0])
			}
		}
	}
	if fw, key := p.canonLoad(v); fw != nil {
		return p.LinOf(fw)
	} else if key != "" {
		if _, ok := p.atoms["v:"+key]; !ok {
			p.atoms["v:"+key] = v
		}
		return Atom("v:" + key)
	}
	return p.atomFor("v:", v)
}

func singleAtom(l Lin) (string, bool) {
	if l.C != 0 || len(l.T) != 1 {
		return "", false
	}
	for a, k := range l.T {
		if k == 1 && !strings.HasPrefix(a, "mul:") {
			return a, true
		}
	}
	return "", false
}

// LenOf returns len(x) as a linear form.
func (p *F) LenOf(x ssa.Value) Lin {
	if fw, key := p.canonLoad(x); fw != nil {
		return p.LenOf(fw)
	} else if key != "" {
		if _, ok := p.atoms["len:"+key]; !ok {
			p.atoms["len:"+key] = x
		}
		return Atom("len:" + key)
	}
	switch y := x.(type) {
	case *ssa.Call:
		if b, ok := y.Call.Value.(*ssa.Builtin); ok && b.Name() == "append" && len(y.Call.Args) == 2 {
			return p.LenOf(y.Call.Args[0]).Add(p.LenOf(y.Call.Args[1]), 1)
		}
	case *ssa.Const:
		if y.Value != nil && y.Value.Kind() == constant.String {
			return Const(int64(len(constant.StringVal(y.Value))))
		}
		if y.IsNil() {
			return Const(0)
		}
	case *ssa.MakeSlice:
		return p.LinOf(y.Len)
	case *ssa.Slice:
		var base Lin
		if pt, ok := y.X.Type().Underlying().(*types.Pointer); ok {
			if arr, ok := pt.Elem().Underlying().(*types.Array); ok {
				base = Const(arr.Len())
			} else {
				base = p.atomFor("len:", y.X)
			}
		} else {
			base = p.LenOf(y.X)
		}
		hi := base
		if y.High != nil {
			hi = p.LinOf(y.High)
		}
		if y.Low != nil {
			return hi.Add(p.LinOf(y.Low), -1)
		}
		return hi
	case *ssa.Convert:
		// string <-> []byte keeps the length
		_, fromStr := y.X.Type().Underlying().(*types.Basic)
		_, toStr := y.Type().Underlying().(*types.Basic)
		_, fromSl := y.X.Type().Underlying().(*types.Slice)
		_, toSl := y.Type().Underlying().(*types.Slice)
		if (fromStr && toSl) || (fromSl && toStr) {
			if fromSl {
				if sl, ok := y.X.Type().Underlying().(*types.Slice); ok {
					if b, ok := sl.Elem().Underlying().(*types.Basic); ok && b.Kind() != types.Uint8 {
						break // []rune -> string changes the length
					}
				}
			}
			if toSl {
				if sl, ok := y.Type().Underlying().(*types.Slice); ok {
					if b, ok := sl.Elem().Underlying().(*types.Basic); ok && b.Kind() != types.Uint8 {
						break
					}
				}
			}
			return p.LenOf(y.X)
		}
	case *ssa.ChangeType:
		return p.LenOf(y.X)
	case *ssa.BinOp:
		if y.Op == token.ADD {
			if b, ok := y.Type().Underlying().(*types.Basic); ok && b.Info()&types.IsString != 0 {
				return p.LenOf(y.X).Add(p.LenOf(y.Y), 1)
			}
		}
	}
	return p.atomFor("len:", x)
}

// ---------------------------------------------------------------------------------------------
// memory: loads of one location that no intervening store can change denote one value

// memKey resolves an address to (base, field path); base is an Alloc or a pointer Parameter.
func memKey(addr ssa.Value) (ssa.Value, string, bool) {
	switch a := addr.(type) {
	case *ssa.Alloc:
		return a, "", true
	case *ssa.Parameter:
		if _, ok := a.Type().Underlying().(*types.Pointer); ok {
			return a, "", true
		}
	case *ssa.FieldAddr:
		b, path, ok := memKey(a.X)
		if !ok {
			return nil, "", false
		}
		return b, fmt.Sprintf("%s.%d", path, a.Field), true
	}
	return nil, "", false
}

func instrBefore(a, b ssa.Instruction) bool {
	if a.Block() != b.Block() {
		return a.Block().Dominates(b.Block())
	}
	for _, ins := range a.Block().Instrs {
		if ins == a {
			return true
		}
		if ins == b {
			return false
		}
	}
	return false
}

// canonLoad: for a load (or a Field of a struct value) returns either the value it must equal
// (unique dominating store to exactly this location) or a canonical key shared by all loads that
// must observe the same value. ("", nil) if nothing can be said.
func (p *F) canonLoad(v ssa.Value) (ssa.Value, string) {
	if fld, ok := v.(*ssa.Field); ok {
		return nil, fmt.Sprintf("fld(%s).%d", id(fld.X), fld.Field)
	}
	ld, ok := v.(*ssa.UnOp)
	if !ok || ld.Op != token.MUL {
		return nil, ""
	}
	base, path, ok := memKey(ld.X)
	if !ok {
		return nil, ""
	}
	if p.escapes(base, path) {
		return nil, ""
	}
	var exact, overlapping []*ssa.Store
	for _, b := range p.Fn.Blocks {
		for _, ins := range b.Instrs {
			st, ok := ins.(*ssa.Store)
			if !ok {
				continue
			}
			sb, sp, ok := memKey(st.Addr)
			if !ok || sb != base {
				continue
			}
			if sp == path {
				exact = append(exact, st)
			} else if strings.HasPrefix(path, sp+".") || strings.HasPrefix(sp, path+".") || sp == "" {
				overlapping = append(overlapping, st)
			}
		}
	}
	var ldInstr ssa.Instruction = ld
	for _, st := range append(append([]*ssa.Store{}, exact...), overlapping...) {
		if !instrBefore(st, ldInstr) {
			return nil, "" // a store that does not dominate the load: give up
		}
	}
	if len(exact) == 1 && len(overlapping) == 0 {
		return exact[0].Val, ""
	}
	if len(exact) > 1 {
		return nil, ""
	}
	return nil, fmt.Sprintf("mem(%s%s)", id(base), path)
}

// escapes: can anything other than the stores visible in this function change base<path>?
// The base pointer may be handed to module functions whose bodies (followed two levels deep) do not store
// into an overlapping field path; any other use (unknown callee, address stored somewhere) counts as escape.
func (p *F) escapes(base ssa.Value, path string) bool {
	if p.escapeCache == nil {
		p.escapeCache = map[string]bool{}
	}
	key := id(base) + "|" + path
	if r, ok := p.escapeCache[key]; ok {
		return r
	}
	res := escapesIn(base, "", path, 0)
	p.escapeCache[key] = res
	return res
}

func overlaps(a, b string) bool {
	return a == b || a == "" || b == "" || strings.HasPrefix(a, b+".") || strings.HasPrefix(b, a+".")
}

// escapesIn: v denotes &base<prefix>; report whether some use may write base<path> invisibly.
func escapesIn(v ssa.Value, prefix, path string, depth int) bool {
	refs := v.Referrers()
	if refs == nil {
		return false
	}
	for _, r := range *refs {
		switch x := r.(type) {
		case *ssa.FieldAddr:
			np := fmt.Sprintf("%s.%d", prefix, x.Field)
			if overlaps(np, path) && escapesIn(x, np, path, depth) {
				return true
			}
		case *ssa.IndexAddr:
			if overlaps(prefix, path) && escapesIn(x, prefix, path, depth) {
				return true
			}
		case *ssa.UnOp, *ssa.DebugRef:
			// load
		case *ssa.Store:
			if x.Val == v {
				return true // the address itself is stored somewhere
			}
			// a direct store through this address is visible to canonLoad (it scans the function's stores) at depth 0,
			// and is a hidden write when found inside a callee
			if depth > 0 && overlaps(prefix, path) {
				return true
			}
		case *ssa.Call:
			callee := x.Call.StaticCallee()
			if callee == nil || len(callee.Blocks) == 0 || depth >= 2 {
				return true
			}
			hit := false
			for i, a := range x.Call.Args {
				if a != v {
					continue
				}
				hit = true
				if i >= len(callee.Params) {
					return true
				}
				if escapesIn(callee.Params[i], prefix, path, depth+1) {
					return true
				}
			}
			if !hit {
				return true
			}
		default:
			return true
		}
	}
	return false
}

// ---------------------------------------------------------------------------------------------
// loops

func (p *F) findLoops() {
	fn := p.Fn
	for _, b := range fn.Blocks {
		for _, s := range b.Succs {
			if s.Dominates(b) { // back edge b -> s
				l := p.loops[s]
				if l == nil {
					l = &Loop{Header: s, Blocks: map[*ssa.BasicBlock]bool{s: true}}
					p.loops[s] = l
				}
				l.Latches = append(l.Latches, b)
				// collect the natural loop
				stack := []*ssa.BasicBlock{b}
				for len(stack) > 0 {
					x := stack[len(stack)-1]
					stack = stack[:len(stack)-1]
					if l.Blocks[x] {
						continue
					}
					l.Blocks[x] = true
					stack = append(stack, x.Preds...)
				}
			}
		}
	}
	for _, l := range p.loops {
		for b := range l.Blocks {
			p.inLoop[b] = append(p.inLoop[b], l)
		}
	}
}

// Loops returns the natural loops of the function, ordered by header index.
func (p *F) Loops() []*Loop {
	var out []*Loop
	for _, l := range p.loops {
		out = append(out, l)
	}
	sort.Slice(out, func(i, j int) bool { return out[i].Header.Index < out[j].Header.Index })
	return out
}

func (p *F) definedIn(l *Loop, v ssa.Value) bool {
	ins, ok := v.(ssa.Instruction)
	if !ok {
		return false
	}
	// a header phi whose back-edge values are the phi itself never changes inside the loop
	if ph, ok := v.(*ssa.Phi); ok && ph.Block() == l.Header {
		unchanged := true
		for k, pred := range l.Header.Preds {
			if l.Blocks[pred] && ph.Edges[k] != ssa.Value(ph) {
				unchanged = false
			}
		}
		if unchanged {
			return false
		}
	}
	return ins.Block() != nil && l.Blocks[ins.Block()]
}

// Invariant reports whether every atom of e is defined outside the loop.
func (p *F) Invariant(l *Loop, e Lin) bool {
	for a := range e.T {
		if v := p.atoms[a]; v != nil && p.definedIn(l, v) {
			return false
		}
	}
	return true
}

// nonNegAtom: the atom is non-negative by type (unsigned value, converted unsigned, length).
func (p *F) nonNegAtom(a string) bool {
	if strings.HasPrefix(a, "len:") {
		return true
	}
	v := p.atoms[a]
	if v == nil {
		return false
	}
	if _, uns := intBits(v.Type()); uns {
		return true
	}
	// copy returns the number of elements copied
	if call, ok := v.(*ssa.Call); ok {
		if bi, isB := call.Call.Value.(*ssa.Builtin); isB && bi.Name() == "copy" {
			return true
		}
	}
	if cv, ok := v.(*ssa.Convert); ok && isInt(cv.X.Type()) {
		if fb, fu := intBits(cv.X.Type()); fu && fb <= 32 {
			if tb, _ := intBits(cv.Type()); tb > fb {
				return true
			}
		}
	}
	return false
}

// minIncrement: a lower bound k such that v >= base + k on every way v can be produced inside the loop
// (through nested phis and additions of constants / non-negative quantities).
func (p *F) minIncrement(l *Loop, v ssa.Value, base *ssa.Phi, seen map[ssa.Value]bool) (int64, bool) {
	return p.increment(l, v, base, seen, false)
}

func (p *F) maxIncrement(l *Loop, v ssa.Value, base *ssa.Phi, seen map[ssa.Value]bool) (int64, bool) {
	return p.increment(l, v, base, seen, true)
}

func (p *F) increment(l *Loop, v ssa.Value, base *ssa.Phi, seen map[ssa.Value]bool, upper bool) (int64, bool) {
	if seen[v] {
		return 0, false
	}
	seen[v] = true
	defer delete(seen, v)
	if v == ssa.Value(base) {
		return 0, true
	}
	if ph, ok := v.(*ssa.Phi); ok && l.Blocks[ph.Block()] && ph != base {
		best, first := int64(0), true
		for _, e := range ph.Edges {
			k, ok := p.increment(l, e, base, seen, upper)
			if !ok {
				return 0, false
			}
			if first || (!upper && k < best) || (upper && k > best) {
				best, first = k, false
			}
		}
		return best, !first
	}
	if bo, ok := v.(*ssa.BinOp); ok && isInt(bo.Type()) && (bo.Op == token.ADD || bo.Op == token.SUB) {
		if bits, uns := intBits(bo.Type()); !uns || bits >= 32 {
			// v = X + rest: bound rest, recurse on X (either operand may hold the base)
			for _, pair := range [][2]ssa.Value{{bo.X, bo.Y}, {bo.Y, bo.X}} {
				if bo.Op == token.SUB && pair[0] != bo.X {
					continue
				}
				rest := p.LinOf(pair[1])
				if bo.Op == token.SUB {
					rest = rest.Scale(-1)
				}
				rb, ok := p.boundOfLin(rest, upper)
				if !ok {
					continue
				}
				if k, ok := p.increment(l, pair[0], base, seen, upper); ok {
					return k + rb, true
				}
			}
		}
	}
	d := p.LinOf(v).Add(p.LinOf(base), -1)
	return p.boundOfLin(d, upper)
}

// lenIncrement: lower bound of len(v) - len(base) through nested phis and appends.
func (p *F) lenIncrement(l *Loop, v ssa.Value, base *ssa.Phi, depth int) (int64, bool) {
	if depth > 40 {
		return 0, false
	}
	if v == ssa.Value(base) {
		return 0, true
	}
	switch x := v.(type) {
	case *ssa.Phi:
		if !l.Blocks[x.Block()] {
			return 0, false
		}
		best, first := int64(0), true
		for _, e := range x.Edges {
			k, ok := p.lenIncrement(l, e, base, depth+1)
			if !ok {
				return 0, false
			}
			if first || k < best {
				best, first = k, false
			}
		}
		return best, !first
	case *ssa.Call:
		if b, ok := x.Call.Value.(*ssa.Builtin); ok && b.Name() == "append" && len(x.Call.Args) == 2 {
			k, ok := p.lenIncrement(l, x.Call.Args[0], base, depth+1)
			if !ok {
				return 0, false
			}
			add, ok := p.boundOfLin(p.LenOf(x.Call.Args[1]), false)
			if !ok {
				return 0, false
			}
			return k + add, true
		}
	}
	return 0, false
}

// pairIncrement: lower bound of (len(vS)-len(S)) - (vA - A), pairing the edges of phis that sit in the same block.
func (p *F) pairIncrement(l *Loop, vS, vA ssa.Value, S, A *ssa.Phi, depth int) (int64, bool) {
	if depth > 40 {
		return 0, false
	}
	ps, okS := vS.(*ssa.Phi)
	pa, okA := vA.(*ssa.Phi)
	if okS && okA && ps != S && pa != A && ps.Block() == pa.Block() && l.Blocks[ps.Block()] {
		best, first := int64(0), true
		for k := range ps.Edges {
			d, ok := p.pairIncrement(l, ps.Edges[k], pa.Edges[k], S, A, depth+1)
			if !ok {
				return 0, false
			}
			if first || d < best {
				best, first = d, false
			}
		}
		return best, !first
	}
	ds, ok := p.lenIncrement(l, vS, S, depth)
	if !ok {
		return 0, false
	}
	da, ok := p.increment(l, vA, A, map[ssa.Value]bool{}, true)
	if !ok {
		return 0, false
	}
	return ds - da, true
}

// boundOfLin: a constant lower (upper=false) or upper (upper=true) bound of a linear form whose atoms are non-negative by type.
func (p *F) boundOfLin(d Lin, upper bool) (int64, bool) {
	for a, k := range d.T {
		if !p.nonNegAtom(a) {
			return 0, false
		}
		if (!upper && k < 0) || (upper && k > 0) {
			return 0, false
		}
	}
	return d.C, true
}

// loopLemmas derives facts about loop-header phis.
func (p *F) loopLemmas() {
	for h, l := range p.loops {
		var phis []*ssa.Phi
		for _, ins := range h.Instrs {
			ph, ok := ins.(*ssa.Phi)
			if !ok {
				break
			}
			if isInt(ph.Type()) {
				phis = append(phis, ph)
			}
		}
		isLatch := map[*ssa.BasicBlock]bool{}
		for _, b := range l.Latches {
			isLatch[b] = true
		}
		// copy cursor: c starts at 0 and every back edge carries c + copy(dst[c:], ..): copy moves at most len(dst)-c
		// elements, so c <= len(dst) holds at the header (and c >= 0 by the monotone lemma below)
		for _, ph := range phis {
			var dst ssa.Value
			fits := true
			for i, pred := range h.Preds {
				if !isLatch[pred] {
					if k, ok := ph.Edges[i].(*ssa.Const); !ok || k.Value == nil || k.Value.ExactString() != "0" {
						fits = false
					}
					continue
				}
				add, ok := ph.Edges[i].(*ssa.BinOp)
				if !ok || add.Op != token.ADD {
					fits = false
					continue
				}
				var cp *ssa.Call
				for _, pair := range [][2]ssa.Value{{add.X, add.Y}, {add.Y, add.X}} {
					if pair[0] == ssa.Value(ph) {
						cp, _ = pair[1].(*ssa.Call)
					}
				}
				if cp == nil {
					fits = false
					continue
				}
				bi, isB := cp.Call.Value.(*ssa.Builtin)
				sl, isS := cp.Call.Args[0].(*ssa.Slice)
				if !isB || bi.Name() != "copy" || !isS || sl.Low != ssa.Value(ph) || sl.High != nil || (dst != nil && dst != sl.X) {
					fits = false
					continue
				}
				if _, isSlice := sl.X.Type().Underlying().(*types.Slice); !isSlice {
					fits = false
					continue
				}
				dst = sl.X
			}
			if fits && dst != nil {
				if ins, isIns := dst.(ssa.Instruction); !isIns || !l.Blocks[ins.Block()] {
					p.lemma[h] = append(p.lemma[h], Fact{L: p.LenOf(dst).Add(p.LinOf(ph), -1), Why: "copy cursor " + ph.Name() + " <= len of the slice it copies into"})
				}
			}
		}
		// monotone phi: entry value e0, every back-edge value >= phi  =>  phi >= e0 ; <= analogous
		for _, ph := range phis {
			var entry []ssa.Value
			mono, anti := true, true
			for i, pred := range h.Preds {
				if !isLatch[pred] {
					entry = append(entry, ph.Edges[i])
					continue
				}
				if k, ok := p.minIncrement(l, ph.Edges[i], ph, map[ssa.Value]bool{}); !ok || k < 0 {
					mono = false
				}
				if k, ok := p.maxIncrement(l, ph.Edges[i], ph, map[ssa.Value]bool{}); !ok || k > 0 {
					anti = false
				}
			}
			if len(entry) == 0 {
				continue
			}
			e0 := p.LinOf(entry[0])
			same, allConst := true, e0.IsConst()
			lo, hi := e0.C, e0.C
			for _, ev := range entry[1:] {
				ei := p.LinOf(ev)
				if !equalLin(ei, e0) {
					same = false
				}
				if !ei.IsConst() {
					allConst = false
				} else {
					if ei.C < lo {
						lo = ei.C
					}
					if ei.C > hi {
						hi = ei.C
					}
				}
			}
			if !same && !allConst {
				continue
			}
			if !p.Invariant(l, e0) {
				continue
			}
			if !same {
				// several constant entry values: use the extreme one for each direction
				if mono {
					p.lemma[h] = append(p.lemma[h], Fact{L: p.LinOf(ph).Add(Const(lo), -1), Why: "monotone phi " + ph.Name() + " >= its smallest entry value"})
				}
				if anti {
					p.lemma[h] = append(p.lemma[h], Fact{L: Const(hi).Add(p.LinOf(ph), -1), Why: "non-increasing phi " + ph.Name() + " <= its largest entry value"})
				}
				continue
			}
			if mono {
				p.lemma[h] = append(p.lemma[h], Fact{L: p.LinOf(ph).Add(e0, -1), Why: "monotone phi " + ph.Name() + " >= its entry value"})
			}
			if anti {
				p.lemma[h] = append(p.lemma[h], Fact{L: e0.Add(p.LinOf(ph), -1), Why: "non-increasing phi " + ph.Name() + " <= its entry value"})
			}
		}
		// length-difference lemma: for a slice phi S and an int phi A of the header, if len(S)-A does not decrease on any
		// back edge and is >= 0 on entry, then len(S) - A >= 0.
		var sphis []*ssa.Phi
		for _, ins := range h.Instrs {
			ph, ok := ins.(*ssa.Phi)
			if !ok {
				break
			}
			if _, isSl := ph.Type().Underlying().(*types.Slice); isSl {
				sphis = append(sphis, ph)
			}
		}
		for _, S := range sphis {
			for _, A := range phis {
				okAll, entries := true, 0
				for k, pred := range h.Preds {
					if !isLatch[pred] {
						entries++
						d := p.LenOf(S.Edges[k]).Add(p.LinOf(A.Edges[k]), -1)
						if lb, ok := p.boundOfLin(d, false); !ok || lb < 0 {
							okAll = false
						}
						continue
					}
					if d, ok := p.pairIncrement(l, S.Edges[k], A.Edges[k], S, A, 0); !ok || d < 0 {
						okAll = false
					}
				}
				if okAll && entries == 1 {
					p.lemma[h] = append(p.lemma[h], Fact{L: p.LenOf(S).Add(p.LinOf(A), -1), Why: "len(" + S.Name() + ") - " + A.Name() + " never decreases"})
				}
			}
		}
		// invariant sum: phi_a + phi_b equals the same loop-invariant expression on every incoming edge
		for i := 0; i < len(phis); i++ {
			for j := i + 1; j < len(phis); j++ {
				var E *Lin
				ok := true
				for k := range h.Preds {
					s := p.LinOf(phis[i].Edges[k]).Add(p.LinOf(phis[j].Edges[k]), 1)
					// the back-edge values may mention values defined in the loop only if they cancel
					if !p.Invariant(l, s) {
						ok = false
						break
					}
					if E == nil {
						E = &s
					} else if !equalLin(*E, s) {
						ok = false
						break
					}
				}
				if ok && E != nil {
					sum := p.LinOf(phis[i]).Add(p.LinOf(phis[j]), 1)
					d := sum.Add(*E, -1)
					p.lemma[h] = append(p.lemma[h], Fact{L: d, Why: "invariant " + phis[i].Name() + "+" + phis[j].Name() + " = " + E.String()},
						Fact{L: d.Scale(-1), Why: "invariant " + phis[i].Name() + "+" + phis[j].Name() + " = " + E.String()})
				}
			}
		}
	}
}

func equalLin(a, b Lin) bool {
	d := a.Add(b, -1)
	return d.IsConst() && d.C == 0
}

// ---------------------------------------------------------------------------------------------
// facts

// condFacts turns a branch condition (taken or not) into facts.
func (p *F) condFacts(cond ssa.Value, taken bool) []Fact {
	switch c := cond.(type) {
	case *ssa.Phi:
		// boolean phi produced by && / ||: when exactly one incoming edge can yield the observed truth value,
		// control came through that edge, so everything valid on that edge holds.
		if p.phiDepth > 4 {
			return nil
		}
		only := -1
		for k, e := range c.Edges {
			if cv, ok := e.(*ssa.Const); ok && cv.Value != nil && cv.Value.Kind() == constant.Bool && constant.BoolVal(cv.Value) != taken {
				continue
			}
			if only >= 0 {
				return nil
			}
			only = k
		}
		if only < 0 {
			return nil
		}
		p.phiDepth++
		defer func() { p.phiDepth-- }()
		pred := c.Block().Preds[only]
		out := p.EdgeFacts(pred, c.Block())
		if _, isConst := c.Edges[only].(*ssa.Const); !isConst {
			out = append(out, p.condFacts(c.Edges[only], taken)...)
		}
		return out
	case *ssa.UnOp:
		if c.Op == token.NOT {
			return p.condFacts(c.X, !taken)
		}
	case *ssa.Call:
		if p.CallFacts != nil {
			return p.CallFacts(c, taken)
		}
	case *ssa.BinOp:
		if !isInt(c.X.Type()) || !isInt(c.Y.Type()) {
			return nil
		}
		x, y := p.LinOf(c.X), p.LinOf(c.Y)
		op := c.Op
		if !taken {
			op = map[token.Token]token.Token{token.LSS: token.GEQ, token.GEQ: token.LSS, token.GTR: token.LEQ, token.LEQ: token.GTR, token.EQL: token.NEQ, token.NEQ: token.EQL}[op]
		}
		why := fmt.Sprintf("branch %s %s %s", x, op, y)
		switch op {
		case token.LSS: // x < y  => y-x-1 >= 0
			return []Fact{{L: y.Add(x, -1).Add(Const(1), -1), Why: why}}
		case token.LEQ:
			return []Fact{{L: y.Add(x, -1), Why: why}}
		case token.GTR:
			return []Fact{{L: x.Add(y, -1).Add(Const(1), -1), Why: why}}
		case token.GEQ:
			return []Fact{{L: x.Add(y, -1), Why: why}}
		case token.EQL:
			return []Fact{{L: x.Add(y, -1), Why: why}, {L: y.Add(x, -1), Why: why}}
		case token.NEQ:
			return []Fact{{L: x.Add(y, -1), NE: true, Why: why}}
		}
	}
	return nil
}

// FactsAt collects the facts valid on entry to block b (dominating conditions + loop lemmas).
func (p *F) FactsAt(b *ssa.BasicBlock) []Fact {
	var out []Fact
	for x := b; x != nil; x = x.Idom() {
		if fs, ok := p.lemma[x]; ok {
			out = append(out, fs...)
		}
		d := x.Idom()
		if d == nil {
			break
		}
		ifi, ok := d.Instrs[len(d.Instrs)-1].(*ssa.If)
		if !ok || len(d.Succs) != 2 || d.Succs[0] == d.Succs[1] {
			continue
		}
		for k, taken := range []bool{true, false} {
			s := d.Succs[k]
			// the edge d->s decides x iff s dominates x and every predecessor of s is d or is dominated by s (a back edge into s)
			if !s.Dominates(x) {
				continue
			}
			exclusive := true
			for _, pr := range s.Preds {
				if pr != d && !s.Dominates(pr) {
					exclusive = false
				}
			}
			if exclusive {
				out = append(out, p.condFacts(ifi.Cond, taken)...)
			}
		}
	}
	return out
}

// EdgeFacts: facts valid when control flows along pred -> succ.
func (p *F) EdgeFacts(pred, succ *ssa.BasicBlock) []Fact {
	out := p.FactsAt(pred)
	if ifi, ok := pred.Instrs[len(pred.Instrs)-1].(*ssa.If); ok && len(pred.Succs) == 2 && pred.Succs[0] != pred.Succs[1] {
		if pred.Succs[0] == succ {
			out = append(out, p.condFacts(ifi.Cond, true)...)
		} else if pred.Succs[1] == succ {
			out = append(out, p.condFacts(ifi.Cond, false)...)
		}
	}
	return out
}

// atomFacts: type ranges and contracts for every atom of the given forms.
func (p *F) atomFacts(forms []Lin, known []Fact) ([]Fact, []condFact) {
	var out []Fact
	var conds []condFact
	seen := map[string]bool{}
	var visit func(a string)
	visit = func(a string) {
		if seen[a] {
			return
		}
		seen[a] = true
		v := p.atoms[a]
		if strings.HasPrefix(a, "len:") {
			out = append(out, Fact{L: Atom(a), Why: "len >= 0"})
			return
		}
		if v == nil {
			return
		}
		if bits, uns := intBits(v.Type()); uns && bits > 0 {
			out = append(out, Fact{L: Atom(a), Why: "unsigned"})
			if bits <= 32 {
				out = append(out, Fact{L: Const((1<<uint(bits))-1).Add(Atom(a), -1), Why: fmt.Sprintf("uint%d range", bits)})
			}
		}
		// conversions from narrower unsigned values that LinOf did not see through
		if cv, ok := v.(*ssa.Convert); ok && isInt(cv.X.Type()) {
			if fb, fu := intBits(cv.X.Type()); fu && fb <= 32 {
				if tb, _ := intBits(cv.Type()); tb > fb {
					out = append(out, Fact{L: Atom(a), Why: "converted from unsigned"})
				}
			}
		}
		if p.NonNeg != nil && p.NonNeg(v) {
			out = append(out, Fact{L: Atom(a), Why: "non-negative by an invariant established elsewhere"})
		}
		// Len() of library buffers
		if cl, ok := v.(*ssa.Call); ok {
			if cal := cl.Call.StaticCallee(); cal != nil && cal.Name() == "Len" && cal.Signature.Recv() != nil {
				rt := cal.Signature.Recv().Type().String()
				if strings.HasSuffix(rt, "bytes.Buffer") || strings.HasSuffix(rt, "bytebufferpool.ByteBuffer") || strings.HasSuffix(rt, "bytes.Reader") {
					out = append(out, Fact{L: Atom(a), Why: "Len() >= 0"})
				}
			}
		}
		// contracts
		var call *ssa.Call
		switch x := v.(type) {
		case *ssa.Call:
			call = x
		case *ssa.Extract:
			call, _ = x.Tuple.(*ssa.Call)
			if x.Index != 0 {
				call = nil
			}
		}
		if cl, isCall := v.(*ssa.Call); isCall && p.ResultFacts != nil && isInt(cl.Type()) {
			always, when := p.ResultFacts(cl, Atom(a))
			out = append(out, always...)
			for _, w := range when {
				conds = append(conds, condFact{guard: w.Guard, f: w.F})
				for t := range w.F.L.T {
					visit(t)
				}
			}
		}
		if call != nil {
			if cal := call.Call.StaticCallee(); cal != nil && cal.Pkg != nil {
				full := cal.Pkg.Pkg.Path() + "." + cal.Name()
				switch full {
				case "strings.Index", "bytes.Index", "bytes.IndexByte", "strings.IndexByte", "strings.IndexRune", "strings.LastIndex", "bytes.LastIndex":
					out = append(out, Fact{L: Atom(a).Add(Const(1), 1), Why: full + " >= -1"})
					hay := p.LenOf(call.Call.Args[0])
					needle := Const(1)
					if full == "strings.Index" || full == "bytes.Index" || full == "strings.LastIndex" || full == "bytes.LastIndex" {
						needle = p.LenOf(call.Call.Args[1])
					}
					// r >= 0  =>  r + len(needle) <= len(hay)
					concl := hay.Add(Atom(a), -1).Add(needle, -1)
					conds = append(conds, condFact{guard: Atom(a), f: Fact{L: concl, Why: full + " contract"}})
					for t := range hay.T {
						visit(t)
					}
					for t := range needle.T {
						visit(t)
					}
				}
			}
		}
	}
	for _, f := range forms {
		for a := range f.T {
			visit(a)
		}
	}
	for _, k := range known {
		for a := range k.L.T {
			visit(a)
		}
	}
	return out, conds
}

// conditional facts: Guard >= 0 implies L >= 0.
type condFact struct {
	guard Lin
	f     Fact
}

// CondFact is a conditional fact supplied by the client: Guard >= 0 implies F.
type CondFact struct {
	Guard Lin
	F     Fact
}

// ---------------------------------------------------------------------------------------------
// proving

// proveDirect: is goal >= 0 a non-negative combination of at most 3 facts plus a non-negative constant?
func proveDirect(goal Lin, facts []Fact) (bool, string) {
	if goal.IsConst() {
		return goal.C >= 0, "constant"
	}
	// keep only facts connected to the goal through shared atoms (transitively), without duplicates
	rel := map[string]bool{}
	for a := range goal.T {
		rel[a] = true
	}
	var fs []Fact
	used := make([]bool, len(facts))
	seenF := map[string]bool{}
	for changed := true; changed; {
		changed = false
		for i, f := range facts {
			if used[i] || f.NE || f.L.IsConst() {
				continue
			}
			hit := false
			for a := range f.L.T {
				if rel[a] {
					hit = true
					break
				}
			}
			if !hit {
				continue
			}
			used[i] = true
			changed = true
			for a := range f.L.T {
				rel[a] = true
			}
			k := f.L.String()
			if !seenF[k] {
				seenF[k] = true
				fs = append(fs, f)
			}
		}
	}
	if len(fs) > 40 {
		fs = fs[:40]
	}
	ok := func(r Lin) bool { return r.IsConst() && r.C >= 0 }
	// relevant facts only: share an atom with the goal or with each other
	n := len(fs)
	coefs := []int64{1, 2, 3, 4, 7, 8}
	for i := 0; i < n; i++ {
		for _, ci := range coefs {
			r1 := goal.Add(fs[i].L, -ci)
			if ok(r1) {
				return true, fs[i].Why
			}
			if len(r1.T) > len(goal.T)+2 {
				continue
			}
			for j := 0; j < n; j++ {
				if j == i {
					continue
				}
				for _, cj := range coefs[:3] {
					r2 := r1.Add(fs[j].L, -cj)
					if ok(r2) {
						return true, fs[i].Why + " & " + fs[j].Why
					}
					if len(r2.T) > len(goal.T)+2 {
						continue
					}
					for k := 0; k < n; k++ {
						if k == i || k == j {
							continue
						}
						r3 := r2.Add(fs[k].L, -1)
						if ok(r3) {
							return true, fs[i].Why + " & " + fs[j].Why + " & " + fs[k].Why
						}
						if len(r3.T) > len(goal.T)+1 {
							continue
						}
						for m := k + 1; m < n; m++ {
							if m == i || m == j {
								continue
							}
							if ok(r3.Add(fs[m].L, -1)) {
								return true, "4 facts"
							}
						}
					}
				}
			}
		}
	}
	return false, ""
}

// saturate adds consequences of != facts and conditional contracts.
func (p *F) saturate(goalForms []Lin, facts []Fact) []Fact {
	af, conds := p.atomFacts(goalForms, facts)
	facts = append(facts, af...)
	for round := 0; round < 3; round++ {
		added := false
		for i := range facts {
			f := facts[i]
			if !f.NE {
				continue
			}
			if ok, _ := proveDirect(f.L, facts); ok {
				facts[i] = Fact{L: f.L.Add(Const(1), -1), Why: f.Why + " (and >= 0)"}
				added = true
			} else if ok, _ := proveDirect(f.L.Scale(-1), facts); ok {
				facts[i] = Fact{L: f.L.Scale(-1).Add(Const(1), -1), Why: f.Why + " (and <= 0)"}
				added = true
			}
		}
		var rest []condFact
		for _, cf := range conds {
			if ok, _ := proveDirect(cf.guard, facts); ok {
				facts = append(facts, cf.f)
				added = true
			} else {
				rest = append(rest, cf)
			}
		}
		conds = rest
		if !added {
			break
		}
	}
	return facts
}

// Subst replaces atoms.
func (a Lin) Subst(m map[string]Lin) Lin {
	r := Const(a.C)
	for t, v := range a.T {
		if s, ok := m[t]; ok {
			r = r.Add(s, v)
		} else {
			r.T[t] += v
		}
	}
	for t, v := range r.T {
		if v == 0 {
			delete(r.T, t)
		}
	}
	return r
}

// Prove tries to establish goal >= 0 at the entry of block b (plus extra facts valid at the site).
func (p *F) Prove(b *ssa.BasicBlock, goal Lin, extra []Fact) (bool, string) {
	return p.prove(b, goal, append(p.FactsAt(b), extra...), 0)
}

func (p *F) prove(b *ssa.BasicBlock, goal Lin, facts []Fact, depth int) (bool, string) {
	fs := p.saturate([]Lin{goal}, append([]Fact{}, facts...))
	if ok, why := proveDirect(goal, fs); ok {
		return true, why
	}
	if depth >= 2 {
		return false, ""
	}
	// phi splitting over a non-loop merge block that dominates b
	cands := map[*ssa.BasicBlock]bool{}
	consider := func(l Lin) {
		for a := range l.T {
			v := p.atoms[a]
			if strings.HasPrefix(a, "len:") {
				// len of a phi
			}
			if ph, ok := v.(*ssa.Phi); ok {
				if _, isHeader := p.loops[ph.Block()]; !isHeader && (ph.Block() == b || ph.Block().Dominates(b)) {
					cands[ph.Block()] = true
				}
			}
		}
	}
	consider(goal)
	for _, f := range fs {
		consider(f.L)
	}
	// merge blocks on the dominator chain (facts that hold on every incoming edge, e.g. loop exit via condition or break)
	n := 0
	for x := b; x != nil && n < 3; x = x.Idom() {
		if _, isHeader := p.loops[x]; !isHeader && len(x.Preds) >= 2 {
			cands[x] = true
			n++
		}
	}
	var blocks []*ssa.BasicBlock
	for m := range cands {
		blocks = append(blocks, m)
	}
	sort.Slice(blocks, func(i, j int) bool { return blocks[i].Index > blocks[j].Index })
	for _, m := range blocks {
		all := true
		for k, pred := range m.Preds {
			sub := map[string]Lin{}
			for _, ins := range m.Instrs {
				ph, ok := ins.(*ssa.Phi)
				if !ok {
					break
				}
				if isInt(ph.Type()) {
					sub["v:"+id(ph)] = p.LinOf(ph.Edges[k])
				} else {
					sub["len:"+id(ph)] = p.LenOf(ph.Edges[k])
				}
			}
			g := goal.Subst(sub)
			var fk []Fact
			for _, f := range facts {
				fk = append(fk, Fact{L: f.L.Subst(sub), NE: f.NE, Why: f.Why})
			}
			fk = append(fk, p.EdgeFacts(pred, m)...)
			if ok, _ := p.prove(b, g, fk, depth+1); !ok {
				all = false
				break
			}
		}
		if all {
			return true, fmt.Sprintf("split over the %d edges into block %d", len(m.Preds), m.Index)
		}
	}
	return false, ""
}

// CheapProgress reports whether every back-edge value of the header phi is >= phi+1 (dir=+1) or <= phi-1 (dir=-1)
// by the increment lemma alone (no proof search).
func (p *F) CheapProgress(l *Loop, ph *ssa.Phi, dir int64) bool {
	isLatch := map[*ssa.BasicBlock]bool{}
	for _, b := range l.Latches {
		isLatch[b] = true
	}
	for i, pred := range l.Header.Preds {
		if !isLatch[pred] {
			continue
		}
		k, ok := p.increment(l, ph.Edges[i], ph, map[ssa.Value]bool{}, dir < 0)
		if !ok || (dir > 0 && k < 1) || (dir < 0 && k > -1) {
			return false
		}
	}
	return true
}

// AtomValue returns the SSA value an atom stands for (nil for synthetic atoms).
func (p *F) AtomValue(a string) ssa.Value { return p.atoms[a] }

// LenIncrement: len(v) - len(base) for an append chain rooted at the header phi base (ok=false if v is not such a chain).
func (p *F) LenIncrement(l *Loop, v ssa.Value, base *ssa.Phi) (int64, bool) {
	return p.lenIncrement(l, v, base, 0)
}
