import re,zlib,sys
def extract(p):
    d=open(p,'rb').read()
    pages=[]
    for m in re.finditer(rb'stream\r?\n',d):
        s=m.end(); e=d.find(b'endstream',s)
        try: dec=zlib.decompress(d[s:e])
        except Exception: continue
        if b'BT' not in dec: continue
        frags=[]
        for mm in re.finditer(rb'([-\d.]+) ([-\d.]+) cm\s+BT(.*?)ET', dec, re.S):
            x=float(mm.group(1)); y=float(mm.group(2)); body=mm.group(3)
            txt=''
            for t in re.finditer(rb'\[(.*?)\]\s*TJ|\(((?:\\.|[^\\)])*)\)\s*Tj|<([0-9a-fA-F]+)>\s*Tj', body, re.S):
                if t.group(1) is not None:
                    for u in re.finditer(rb'\(((?:\\.|[^\\)])*)\)|<([0-9a-fA-F]+)>', t.group(1)):
                        if u.group(1) is not None: txt+=u.group(1).decode('latin1')
                        else: txt+='#'
                elif t.group(2) is not None: txt+=t.group(2).decode('latin1')
                else: txt+='#'*(len(t.group(3))//4)
            txt=re.sub(r'\\([()\\])',r'\1',txt)
            if txt.strip(): frags.append((round(y),x,txt))
        pages.append(frags)
    return pages
pages=extract(sys.argv[1])
for i,fr in enumerate(pages):
    lines={}
    for y,x,t in fr:
        key=None
        for k in lines:
            if abs(k-y)<=3: key=k;break
        if key is None: key=y; lines[key]=[]
        lines[key].append((x,t))
    print('=== stream',i)
    for y in sorted(lines,reverse=True):
        print(''.join(t for x,t in sorted(lines[y])))
