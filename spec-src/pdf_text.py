import re,zlib,sys
d=open(sys.argv[1],'rb').read()
out=[]
for m in re.finditer(rb'stream\r?\n',d):
    s=m.end(); e=d.find(b'endstream',s)
    try: dec=zlib.decompress(d[s:e])
    except Exception: continue
    if b'BT' not in dec: continue
    out.append('=== stream')
    for bt in re.finditer(rb'BT(.*?)ET',dec,re.S):
        line=''
        for t in re.finditer(rb'\[(.*?)\]\s*TJ|\(((?:\\.|[^\\)])*)\)\s*(?:Tj|\'|")|<([0-9a-fA-F]+)>\s*Tj|(T\*|Td|TD|Tm)', bt.group(1), re.S):
            if t.group(4):
                if line and not line.endswith(' '): line+=' '
                continue
            if t.group(1) is not None:
                for u in re.finditer(rb'\(((?:\\.|[^\\)])*)\)|<([0-9a-fA-F]+)>|(-?\d+\.?\d*)', t.group(1)):
                    if u.group(1) is not None: line+=u.group(1).decode('latin1')
                    elif u.group(2) is not None: line+='#'
                    else:
                        try:
                            if float(u.group(3))<-200: line+=' '
                        except: pass
            elif t.group(2) is not None: line+=t.group(2).decode('latin1')
            else: line+='#'
        line=re.sub(r'\\([()\\])',r'\1',line)
        line=re.sub(r'\\(\d{3})',lambda m:chr(int(m.group(1),8)),line)
        if line.strip(): out.append(line)
print('\n'.join(out))
