import re,zlib,sys,hashlib,struct
d=open(sys.argv[1],'rb').read()
PAD=bytes.fromhex('28BF4E5E4E758A4164004E56FFFA01082E2E00B6D0683E802F0CA9FE6453697A')
def rc4(key,data):
    S=list(range(256)); j=0
    for i in range(256):
        j=(j+S[i]+key[i%len(key)])&255; S[i],S[j]=S[j],S[i]
    i=j=0; out=bytearray()
    for b in data:
        i=(i+1)&255; j=(j+S[i])&255; S[i],S[j]=S[j],S[i]
        out.append(b^S[(S[i]+S[j])&255])
    return bytes(out)
enc=re.search(rb'/Filter\s*/Standard(.*?)>>',d,re.S)
m=re.search(rb'obj\s*<<[^>]*?/Filter\s*/Standard.*?>>',d,re.S)
blk=m.group(0)
print(blk[:400])
def getstr(name):
    mm=re.search(name+rb'\s*\((.*?)(?<!\\)\)',blk,re.S)
    if mm:
        s=mm.group(1)
        # unescape
        out=bytearray(); i=0
        while i<len(s):
            c=s[i]
            if c==0x5c:
                i+=1; c2=s[i]
                mp={ord('n'):10,ord('r'):13,ord('t'):9,ord('b'):8,ord('f'):12,ord('('):40,ord(')'):41,0x5c:0x5c}
                if c2 in mp: out.append(mp[c2]); i+=1
                elif 48<=c2<=55:
                    o=0;k=0
                    while k<3 and i<len(s) and 48<=s[i]<=55: o=o*8+s[i]-48;i+=1;k+=1
                    out.append(o&255)
                else: out.append(c2); i+=1
            else: out.append(c); i+=1
        return bytes(out)
    mm=re.search(name+rb'\s*<([0-9a-fA-F]+)>',blk)
    return bytes.fromhex(mm.group(1).decode())
O=getstr(rb'/O'); U=getstr(rb'/U')
P=int(re.search(rb'/P\s+(-?\d+)',blk).group(1)); R=int(re.search(rb'/R\s+(\d+)',blk).group(1))
L=re.search(rb'/Length\s+(\d+)',blk); n=(int(L.group(1))//8) if L else 5
idm=re.search(rb'/ID\s*\[\s*<([0-9a-fA-F]+)>',d); ID=bytes.fromhex(idm.group(1).decode())
print('R',R,'P',P,'n',n,len(O),len(U))
h=hashlib.md5(PAD+O[:32]+struct.pack('<i',P)+ID).digest()
if R>=3:
    for _ in range(50): h=hashlib.md5(h[:n]).digest()
key=h[:n]
out=[]
for m in re.finditer(rb'(\d+)\s+(\d+)\s+obj(.*?)endobj',d,re.S):
    num=int(m.group(1)); gen=int(m.group(2)); body=m.group(3)
    sm=re.search(rb'stream\r?\n',body)
    if not sm: continue
    hdr=body[:sm.start()]
    lm=re.search(rb'/Length\s+(\d+)(?!\s+\d+\s+R)',hdr)
    s=sm.end()
    e=body.rfind(b'endstream')
    raw=body[s:e]
    if lm: raw=raw[:int(lm.group(1))]
    ok=hashlib.md5(key+struct.pack('<I',num)[:3]+struct.pack('<H',gen)).digest()[:min(n+5,16)]
    dec=rc4(ok,raw)
    try: z=zlib.decompress(dec)
    except Exception as ex:
        try: z=zlib.decompressobj().decompress(dec)
        except Exception: continue
    out.append(z)
print(len(out))
open('smgp_streams.bin','wb').write(b'\n%%%%STREAM\n'.join(out))
print(sum(1 for z in out if b'BT' in z))
