package smgp

import "testing"

// C16: adding to an empty (nil) container has no effect.
func TestKnownC16AddOnNil(t *testing.T) {
	var o Options
	o.Add(NewOption(TAG_TP_pid, []byte{1}))
	if len(o) != 1 {
		t.Fatalf("option lost: len=%d", len(o))
	}
}
