package codec

import (
	"bufio"
	"bytes"
	"runtime"
	"testing"
)

type kbr struct{ *bufio.Reader }

func (b kbr) Size() int { return b.Buffered() }

// C03: the blocking extractor allocates the announced length before any body octet has arrived.
func TestKnownC03DecodeBlockedAlloc(t *testing.T) {
	var a, b runtime.MemStats
	runtime.ReadMemStats(&a)
	_, err := NewCMPPCodec().DecodeBlocked(kbr{bufio.NewReader(bytes.NewReader([]byte{0x10, 0, 0, 0}))})
	runtime.ReadMemStats(&b)
	if err == nil {
		t.Fatal("no error")
	}
	if b.TotalAlloc-a.TotalAlloc > 1<<20 {
		t.Fatalf("allocated %d octets for a 4-octet input", b.TotalAlloc-a.TotalAlloc)
	}
}
