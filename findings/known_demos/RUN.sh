#!/bin/bash
# Demonstrates every finding recorded as status=known in /verif/known_findings.json against the real code at /repo HEAD:
# each TestKnown* FAILS (that is the defect). Scratch worktree, removed afterwards.
export GOFLAGS=-mod=mod GOPROXY=off GOSUMDB=off GOTOOLCHAIN=local; unset GOWORK
d=$(mktemp -d /tmp/verif-known.XXXX); here=$(cd "$(dirname "$0")" && pwd)
git -C /repo worktree add -q --detach "$d" HEAD || exit 2
cp $here/root/*.go $d/; cp $here/smgp30/*.go $d/smgp/smgp30/; cp $here/smgp/*.go $d/smgp/; cp $here/codec/*.go $d/codec/; cp $here/smpp/*.go $d/smpp/
(cd $d && go test -vet=off -count=1 -run 'TestKnown' . ./smgp/smgp30 ./smgp ./codec ./smpp 2>&1 | grep -E '^(--- |ok|FAIL|panic)')
git -C /repo worktree remove --force "$d"
