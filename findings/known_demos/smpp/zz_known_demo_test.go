package smpp

import (
	"testing"
	"time"
)

// C19: a relative validity period of 40 days is silently shortened to 9 days.
func TestKnownC19Days(t *testing.T) {
	s, err := ToValidatePeriod(time.Now(), "960h", true)
	if err == nil && s != "000040000000000R" {
		t.Fatalf("40 days rendered as %q without an error", s)
	}
}
