package smgp30

import (
	"bytes"
	"testing"

	"github.com/hujm2023/go-sms-protocol/smgp"
)

// C01/C11: SubmitResp.MsgID is hex-expanded on decode and written raw on encode.
func TestKnownC01SubmitRespMsgID(t *testing.T) {
	p := &SubmitResp{Header: smgp.NewHeader(0, smgp.CommandSubmitResp, 1), MsgID: "\x01\x02\x03\x04\x05\x06\x07\x08\x09\x10"}
	b, err := p.IEncode()
	if err != nil {
		t.Fatal(err)
	}
	q := new(SubmitResp)
	if err := q.IDecode(b); err != nil {
		t.Fatal(err)
	}
	if q.MsgID != p.MsgID {
		t.Fatalf("decoded MsgID %q != encoded %q", q.MsgID, p.MsgID)
	}
	if _, err := q.IEncode(); err != nil {
		t.Fatalf("a decoded PDU cannot be re-encoded: %v", err)
	}
}

func TestKnownC01DeliverMsgID(t *testing.T) {
	p := &Deliver{Header: smgp.NewHeader(0, smgp.CommandDeliver, 1), MsgID: "\x01\x02\x03\x04\x05\x06\x07\x08\x09\x10"}
	b, _ := p.IEncode()
	q := new(Deliver)
	if err := q.IDecode(b); err != nil {
		t.Fatal(err)
	}
	if q.MsgID != p.MsgID {
		t.Fatalf("decoded MsgID %q != encoded %q", q.MsgID, p.MsgID)
	}
}

// C01/C15: a server authenticator containing 0x00 is cut short.
func TestKnownC01LoginRespAuth(t *testing.T) {
	auth := "ab\x00cdefghijklmno"
	b, _ := (&LoginResp{Header: smgp.NewHeader(0, smgp.CommandLoginResp, 1), AuthenticatorServer: auth}).IEncode()
	q := new(LoginResp)
	if err := q.IDecode(b); err != nil || q.AuthenticatorServer != auth {
		t.Fatalf("%q %v", q.AuthenticatorServer, err)
	}
}

// C02: SMGP 3.0.3 Active_Test_Resp is header only (12 octets).
func TestKnownC02ActiveTestResp(t *testing.T) {
	b, _ := (&ActiveTestResp{Header: smgp.NewHeader(0, smgp.CommandActiveTestResp, 1)}).IEncode()
	if len(b) != 12 {
		t.Fatalf("encoded %d octets, the specification defines 12", len(b))
	}
	conformant := []byte{0, 0, 0, 12, 0x80, 0, 0, 4, 0, 0, 0, 1}
	if err := new(ActiveTestResp).IDecode(conformant); err != nil {
		t.Fatalf("a conformant 12-octet image is rejected: %v", err)
	}
	_ = bytes.Equal
}
