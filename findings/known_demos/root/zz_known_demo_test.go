package protocol

import (
	"context"
	"strings"
	"testing"

	"github.com/hujm2023/go-sms-protocol/datacoding"
)

// C14: splitWithUDHI cuts at fixed offsets; a surrogate pair at octets 132..135 of the UCS-2 image is cut in two.
func TestKnownC14SurrogateCut(t *testing.T) {
	text := strings.Repeat("中", 66) + "😀" + strings.Repeat("中", 10)
	parts, coding, err := EncodeCMPPContentAndSplit(context.Background(), text, datacoding.CMPP_CODING_UCS2, 1)
	if err != nil || len(parts) != 2 {
		t.Fatalf("parts=%d err=%v", len(parts), err)
	}
	var got string
	for _, p := range parts {
		s, err := DecodeCMPPCContent(context.Background(), string(p[6:]), coding.ToUint8())
		if err != nil {
			t.Fatalf("part not decodable on its own: %v", err)
		}
		got += s
	}
	if got != text {
		t.Fatalf("parts decoded separately do not give back the text")
	}
}

// C14: GB18030 two-octet character straddling offset 134.
func TestKnownC14GBKCut(t *testing.T) {
	text := "a" + strings.Repeat("中", 100)
	parts, coding, err := EncodeCMPPContentAndSplit(context.Background(), text, datacoding.CMPP_CODING_GBK, 1)
	if err != nil || len(parts) < 2 {
		t.Fatalf("parts=%d err=%v", len(parts), err)
	}
	var got string
	for _, p := range parts {
		s, err := DecodeCMPPCContent(context.Background(), string(p[6:]), coding.ToUint8())
		if err != nil {
			t.Fatalf("part not decodable on its own: %v", err)
		}
		got += s
	}
	if got != text {
		t.Fatalf("parts decoded separately do not give back the text")
	}
}

// C14: unpacked GSM 7-bit escape pair straddling septet 153.
func TestKnownC14EscapeCutUnpacked(t *testing.T) {
	text := strings.Repeat("a", 152) + "[" + strings.Repeat("b", 20)
	parts, _, err := EncodeSMPPContentAndSplit(context.Background(), text, datacoding.SMPP_CODING_GSM7_UNPACKED, 1)
	if err != nil || len(parts) != 2 {
		t.Fatalf("parts=%d err=%v", len(parts), err)
	}
	for _, p := range parts {
		if _, err := datacoding.GSM7Unpacked(p[6:]).Decode(); err != nil {
			t.Fatalf("part not decodable on its own: %v", err)
		}
	}
}
