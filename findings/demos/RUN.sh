#!/bin/bash
# Usage: RUN.sh <commit>  -- copies the demos into a scratch worktree of /repo at <commit> and runs them.
# On the pinned snapshot (e31e46d) every TestVerifDemo* fails; at the repaired HEAD every one passes.
# (sgip12's test binary does not link in this sandbox, so there is no sgip12 demo; its dispatcher
# omission is shown by reading sgip/sgip12/utils.go.)
export GOFLAGS=-mod=mod GOPROXY=off GOSUMDB=off GOTOOLCHAIN=local; unset GOWORK
c=${1:-HEAD}; d=$(mktemp -d /tmp/verif-demo.XXXX); here=$(cd "$(dirname "$0")" && pwd)
git -C /repo worktree add -q --detach "$d" "$c" || exit 2
cp $here/root/*.go $d/; cp $here/cmpp20/*.go $d/cmpp/cmpp20/; cp $here/smgp/*.go $d/smgp/; cp $here/smgp30/*.go $d/smgp/smgp30/
cp $here/packet/*.go $d/packet/; cp $here/codec/*.go $d/codec/; cp $here/gsm7/*.go $d/datacoding/gsm7encoding/
cp $here/smpp34/*.go $d/smpp/smpp34/; cp $here/smpp/*.go $d/smpp/
(cd $d && go test -vet=off -count=1 -run 'TestVerifDemo' . ./cmpp/cmpp20 ./smgp ./smgp/smgp30 ./packet ./codec ./datacoding/gsm7encoding ./smpp/smpp34 ./smpp 2>&1 | grep -E '^(--- |ok|FAIL|panic)' )
git -C /repo worktree remove --force "$d"
