package protocol

import (
	"strings"
	"testing"

	"github.com/hujm2023/go-sms-protocol/datacoding/gsm7encoding"
)

// 152 plain septets + escape pair + 152 plain = 306 septets: three parts are needed.
func TestVerifDemoPackedSplitLosesSeptet(t *testing.T) {
	text := strings.Repeat("a", 152) + "[" + strings.Repeat("b", 152)
	parts, _, err := encodeAndSplitGSM7Packed(text, 7)
	if err != nil {
		t.Fatal(err)
	}
	var septets []byte
	for _, p := range parts {
		septets = append(septets, gsm7encoding.Unpack(p[6:])...)
	}
	got, err := gsm7encoding.Decode(septets)
	if err != nil || string(got) != text {
		t.Fatalf("reassembled %d chars, want %d (err=%v)", len(got), len(text), err)
	}
}

func TestVerifDemoTooManyParts(t *testing.T) {
	text := strings.Repeat("a", 134*300)
	parts, _, err := EncodeCMPPContentAndSplit(nil, text, 0, 1)
	if err == nil {
		t.Fatalf("300 parts accepted; header announces total=%d", parts[0][4])
	}
}

func TestVerifDemoRef16(t *testing.T) {
	k1, _, _, _, _ := ParseLongSmsContent("\x06\x08\x04\x01\x02\x02\x01x")
	k2, _, _, _, _ := ParseLongSmsContent("\x06\x08\x04\x02\x01\x02\x01x")
	if k1 != 0x0102 || k2 != 0x0201 {
		t.Fatalf("refs %#x %#x", k1, k2)
	}
}
