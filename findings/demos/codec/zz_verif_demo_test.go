package codec

import (
	"bufio"
	"bytes"
	"testing"
)

type br struct{ *bufio.Reader }

func (b br) Size() int { return b.Buffered() }

func TestVerifDemoShortPrefix(t *testing.T) {
	defer func() {
		if r := recover(); r != nil {
			t.Fatalf("panic: %v", r)
		}
	}()
	for _, c := range []Codec{NewCMPPCodec(), NewSMPPCodec()} {
		r := br{bufio.NewReader(bytes.NewReader([]byte{0, 0, 0, 0, 9, 9, 9, 9}))}
		r.Peek(8)
		if f, err := c.Decode(r); err == nil {
			t.Fatalf("prefix 0 accepted, frame %v", f)
		}
		if _, err := c.DecodeBlocked(br{bufio.NewReader(bytes.NewReader([]byte{0, 0, 0, 2, 9, 9}))}); err == nil {
			t.Fatal("prefix 2 accepted")
		}
	}
}
