package smgp

import (
	"testing"
	"time"

	"github.com/hujm2023/go-sms-protocol/packet"
)

func TestVerifDemoReadOptionsTerminates(t *testing.T) {
	done := make(chan Options, 1)
	go func() { done <- ReadOptions(packet.NewPacketReader([]byte{0, 1, 0, 1, 9})) }()
	select {
	case o := <-done:
		if len(o) != 1 || o[TAG_TP_pid].Value()[0] != 9 {
			t.Fatalf("%v", o)
		}
	case <-time.After(2 * time.Second):
		t.Fatal("ReadOptions does not terminate")
	}
}

func TestVerifDemoOptionBytes65535(t *testing.T) {
	defer func() {
		if r := recover(); r != nil {
			t.Fatalf("panic: %v", r)
		}
	}()
	b := NewOption(TAG_LinkID, make([]byte, 65535)).Bytes()
	if len(b) != 65539 {
		t.Fatalf("len=%d", len(b))
	}
}

func TestVerifDemoParseOptionsAlias(t *testing.T) {
	raw := []byte{0, 1, 0, 1, 9}
	o, err := ParseOptions(raw)
	if err != nil {
		t.Fatal(err)
	}
	raw[4] = 0xff
	if o[TAG_TP_pid].Value()[0] != 9 {
		t.Fatal("option value aliases the input buffer")
	}
}

func TestVerifDemoTPudhiEmpty(t *testing.T) {
	defer func() {
		if r := recover(); r != nil {
			t.Fatalf("panic: %v", r)
		}
	}()
	o, _ := ParseOptions([]byte{0, 2, 0, 0})
	_ = o.TP_udhi()
}
