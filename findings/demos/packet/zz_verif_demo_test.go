package packet

import (
	"runtime"
	"testing"
)

func TestVerifDemoReaderAllocBeforeCheck(t *testing.T) {
	var a, b runtime.MemStats
	r := NewPacketReader([]byte{1, 2, 3})
	runtime.ReadMemStats(&a)
	_ = r.ReadNBytes(1 << 28)
	runtime.ReadMemStats(&b)
	if r.Error() == nil {
		t.Fatal("no error")
	}
	if b.TotalAlloc-a.TotalAlloc > 1<<20 {
		t.Fatalf("allocated %d octets for a 3-octet input", b.TotalAlloc-a.TotalAlloc)
	}
}

func TestVerifDemoWrittenAfterError(t *testing.T) {
	w := NewPacketWriter()
	w.WriteFixedLenString("too long", 2)
	w.WriteUint32(1)
	if w.Written() != 0 {
		t.Fatalf("Written()=%d after a failed write", w.Written())
	}
}
