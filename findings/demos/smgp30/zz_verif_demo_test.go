package smgp30

import "testing"

func TestVerifDemoBackupKey(t *testing.T) {
	defer func() {
		if r := recover(); r != nil {
			t.Fatalf("panic: %v", r)
		}
	}()
	if v := findSubValue("x Err", "err", "Err", 3); v != "" {
		t.Fatalf("%q", v)
	}
	if v := findSubValue("id:1 Submit_Date:2401010101 Sub:001", "sub", "Sub", 3); v != "001" {
		t.Fatalf("%q", v)
	}
}
