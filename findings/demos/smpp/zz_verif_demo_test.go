package smpp

import "testing"

func TestVerifDemoTLVBytes65535(t *testing.T) {
	defer func() {
		if r := recover(); r != nil {
			t.Fatalf("panic: %v", r)
		}
	}()
	if n := len(NewTLV(1, make([]byte, 65535)).Bytes()); n != 65539 {
		t.Fatalf("len=%d", n)
	}
}
