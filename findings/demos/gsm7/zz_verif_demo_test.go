package gsm7encoding

import (
	"bytes"
	"testing"
)

func TestVerifDemoUnpackEmpty(t *testing.T) {
	defer func() {
		if r := recover(); r != nil {
			t.Fatalf("panic: %v", r)
		}
	}()
	_ = Unpack(nil)
}

func TestVerifDemoEighthSeptetZero(t *testing.T) {
	s, _ := Encode("1234567@12345678")
	if got := Unpack(Pack(s)); !bytes.Equal(got, s) {
		t.Fatalf("got %d septets want %d", len(got), len(s))
	}
}
