package smpp34

import (
	"testing"

	"github.com/hujm2023/go-sms-protocol/smpp"
)

func TestVerifDemoBindFlavour(t *testing.T) {
	b, _ := (&Bind{Header: smpp.Header{ID: smpp.BIND_RECEIVER, Sequence: 3}}).IEncode()
	p, err := DecodeSMPP34(b)
	if err != nil {
		t.Fatal(err)
	}
	if p.GetCommand().ToUint32() != uint32(smpp.BIND_RECEIVER) {
		t.Fatalf("command %v", p.GetCommand())
	}
	if p.GenEmptyResponse().GetCommand().ToUint32() != uint32(smpp.BIND_RECEIVER_RESP) {
		t.Fatalf("resp %v", p.GenEmptyResponse().GetCommand())
	}
}

func TestVerifDemoDispatchUnbindResp(t *testing.T) {
	if _, err := DecodeSMPP34(NewUnBindRespBytes(1)); err != nil {
		t.Fatal(err)
	}
}
