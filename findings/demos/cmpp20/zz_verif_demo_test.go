package cmpp20

import (
	"testing"

	"github.com/hujm2023/go-sms-protocol/cmpp"
)

func TestVerifDemoQueryRespMO(t *testing.T) {
	p := &PduQueryResp{MtScs: 1, MtWT: 2, MtFL: 3, MoScs: 4, MoWT: 5, MoFL: 6}
	b, err := p.IEncode()
	if err != nil {
		t.Fatal(err)
	}
	q := new(PduQueryResp)
	if err := q.IDecode(b); err != nil {
		t.Fatal(err)
	}
	if q.MoScs != 4 || q.MoWT != 5 || q.MoFL != 6 || q.MtScs != 1 {
		t.Fatalf("%+v", q)
	}
}

func TestVerifDemoSubmitLen13(t *testing.T) {
	p := &PduSubmit{DestUsrTL: 13, DestTerminalID: make([]string, 13)}
	b, err := p.IEncode()
	if err != nil {
		t.Fatal(err)
	}
	h, _ := cmpp.PeekHeader(b)
	if int(h.TotalLength) != len(b) {
		t.Fatalf("TotalLength=%d len=%d", h.TotalLength, len(b))
	}
}

func TestVerifDemoDispatchQuery(t *testing.T) {
	b, _ := (&PduQuery{Header: cmpp.Header{CommandID: cmpp.CommandQuery}}).IEncode()
	if _, err := DecodeCMPP20(b); err != nil {
		t.Fatal(err)
	}
}

func TestVerifDemoAuthWithNUL(t *testing.T) {
	auth := "ab\x00cdefghijklmno"
	b, _ := (&PduConnect{Header: cmpp.Header{CommandID: cmpp.CommandConnect}, AuthenticatorSource: auth}).IEncode()
	q := new(PduConnect)
	if err := q.IDecode(b); err != nil || q.AuthenticatorSource != auth {
		t.Fatalf("%q %v", q.AuthenticatorSource, err)
	}
}
